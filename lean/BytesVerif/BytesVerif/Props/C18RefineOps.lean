/-
C18 (refinement, continued) — the other operations of the recycling loop.  Props/C18Refine.lean ties
`Recycle.reserve` to M1's `mutReserve`; this file does the same for `advance`, `truncate`, `append`
(`extend_from_slice`), `split_to`, `split`, dropping a part, `split_off(len)`, `unsplit` and the round
trip `freeze` + `BytesMut::from` / `try_into_mut`, chains the steps along a history, and transfers the
allocation-size bound of Props/C18.lean to M1.  Every operation of `Recycle.Op` that touches the main
handle is covered (`dropPinned` / `dropOld` only concern `pinned`, which `RecView` does not constrain;
see `RecViewP` at the end).  The only side condition left is the one on `advance` (MAX_VEC_POS).
-/
import BytesVerif.Props.C18Refine
set_option linter.unusedVariables false
set_option linter.unusedSimpArgs false
namespace BytesVerif.Core
namespace C18Refine
open OpsD OpsC
open BytesVerif.Recycle (Rec)

/-! ## the shape of the conclusions -/

/-- what every refinement theorem below concludes: slot `i` of the new state `s'` holds a handle that
is related to the new record `r'`, and the number of byte-buffer allocations recorded in the event
list grew by exactly `r'.allocs - r.allocs` (additive form) -/
def Sim (s : St) (r : Rec) (i : Nat) (s' : St) (r' : Rec) : Prop :=
  ∃ h', s'.hs[i]? = some (some h') ∧ RecView s' h' r' ∧
    allocCount s'.events + r.allocs = allocCount s.events + r'.allocs

/-- only `BytesMut` handles are related to a record -/
theorem RecView.is_mut {s : St} {h : Handle} {r : Rec} (hv : RecView s h r) :
    ∃ arc reg off len cap orig, h = .mut arc reg off len cap orig := by
  cases h with
  | bytes _ _ _ _ => exact hv.elim
  | vec _ _ _ => exact hv.elim
  | «mut» arc reg off len cap orig => exact ⟨_, _, _, _, _, _, rfl⟩

/-- `MAX_VEC_POS` of bytes_mut.rs on a 64-bit target -/
def maxVecPos : Nat := W / 32 - 1

/-- the control block of a `BytesMut` handle -/
def arcOf : Handle → Option Nat
  | .mut arc _ _ _ _ _ => arc
  | _ => none

/-! ## `Recycle.step`, operation by operation -/

theorem rstep_advance (r : Rec) (n : Nat) (h : n ≤ r.len) :
    Recycle.step r (.advance n) = { r with off := r.off + n, len := r.len - n, cap := r.cap - n } := by
  simp [Recycle.step, Nat.not_lt.mpr h]

theorem rstep_truncate (r : Rec) (n : Nat) (h : n ≤ r.len) :
    Recycle.step r (.truncate n) = { r with len := n } := by
  simp [Recycle.step, h]

theorem rstep_truncate_noop (r : Rec) (n : Nat) (h : ¬ n ≤ r.len) :
    Recycle.step r (.truncate n) = r := by
  simp [Recycle.step, h]

/-! ## 1. advance -/

/-- `advance_unchecked(n)` on the main handle, general form: if a KIND_VEC handle is pushed beyond
`MAX_VEC_POS` M1 (like the crate) promotes it to KIND_ARC with reference count 1, which
`Recycle.step _ (.advance n)` does not model; everywhere else the two models agree. -/
theorem advance_refines_gen (cfg : Cfg) {s : St} (hI : Inv s) {i : Nat} {arc reg : Option Nat}
    {off len cap orig n : Nat} (hi : s.hs[i]? = some (some (.mut arc reg off len cap orig)))
    (hn : n ≤ len) (r : Rec) (hv : RecView s (.mut arc reg off len cap orig) r) {h' : Handle} {s' : St}
    (hok : mutAdvanceUnchecked cfg (.mut arc reg off len cap orig) n s = .ok h' s') :
    s'.hs = s.hs ∧ s'.regions = s.regions ∧ allocCount s'.events = allocCount s.events ∧
    RecViewL s'.regions s'.ctrls h'
      (if r.arc = false ∧ n ≠ 0 ∧ ¬ r.off + n ≤ maxVecPos
       then { Recycle.step r (.advance n) with arc := true } else Recycle.step r (.advance n)) := by
  have hok0 := hI.hok i _ hi
  cases arc with
  | some c =>
    obtain ⟨hlc, _, _⟩ := handleOKL_mutA.mp hok0
    obtain ⟨vreg, vlen, vcap, vorig, rc, he, ra, ro, rl, rcp, rorig, rA, rp⟩ := RecView_arc.mp hv
    rw [mutAdvanceUnchecked_arc cfg (by omega) s] at hok
    obtain ⟨rfl, rfl⟩ := R.ok.inj hok
    have hc : ¬ (r.arc = false ∧ n ≠ 0 ∧ ¬ r.off + n ≤ maxVecPos) := by rw [ra]; simp
    rw [if_neg hc, rstep_advance r n (by omega)]
    exact ⟨rfl, rfl, rfl, vreg, vlen, vcap, vorig, rc, he, ra, by simp [ro], by simp [rl], by simp [rcp],
      rorig, rA, rp⟩
  | none =>
    obtain ⟨hlc, hoffb, hregc, _⟩ := handleOKL_mutV.mp hok0
    obtain ⟨ra, ro, rl, rcp, rorig, rA, rp⟩ := RecView_vec.mp hv
    have hnc : n ≤ cap := by omega
    rw [rstep_advance r n (by omega)]
    by_cases h0 : n = 0
    · subst h0
      have h1 : mutAdvanceUnchecked cfg (.mut none reg off len cap orig) 0 s =
          .ok (.mut none reg off len cap orig) s := by simp [mutAdvanceUnchecked]
      rw [h1] at hok
      obtain ⟨rfl, rfl⟩ := R.ok.inj hok
      rw [if_neg (by simp)]
      exact ⟨rfl, rfl, rfl, ra, by simp [ro], by simp [rl], by simp [rcp], rorig, rA, rp⟩
    · by_cases hpos : off + n ≤ W / 32 - 1
      · have h1 : mutAdvanceUnchecked cfg (.mut none reg off len cap orig) n s =
            .ok (.mut none reg (off + n) (len - n) (cap - n) orig) s := by
          simp [mutAdvanceUnchecked, h0, dassert_eq cfg (cond := decide (n ≤ cap)) (by simpa using hnc),
            usub_eq cfg hnc, hpos]
        rw [h1] at hok
        obtain ⟨rfl, rfl⟩ := R.ok.inj hok
        rw [if_neg (by rw [ro]; simp [maxVecPos, hpos])]
        exact ⟨rfl, rfl, rfl, ra, by simp [ro], by simp [rl], by simp [rcp], rorig, rA, rp⟩
      · -- promote_to_shared(1)
        have h1 : mutAdvanceUnchecked cfg (.mut none reg off len cap orig) n s =
            .ok (.mut (some s.ctrls.length) reg (off + n) (len - n) (cap - n) orig)
              { s with ctrls := s.ctrls ++ [⟨.sharedV reg (off + len) (off + cap) orig, 1, true⟩],
                       events := .allocCtrl s.ctrls.length :: s.events } := by
          simp [mutAdvanceUnchecked, h0, dassert_eq cfg (cond := decide (n ≤ cap)) (by simpa using hnc),
            usub_eq cfg hnc, hpos]
        rw [h1] at hok
        obtain ⟨rfl, rfl⟩ := R.ok.inj hok
        rw [if_pos ⟨ra, h0, by rw [ro]; simpa [maxVecPos] using hpos⟩]
        have hA : r.A = off + cap := by
          cases reg with
          | none => simp only at hregc; simp [bufSizeL] at rA; omega
          | some r0 => simp only at hregc; simp only [bufSizeL] at rA; omega
        refine ⟨rfl, rfl, by simp [allocCount, List.countP_cons, isAlloc], ?_⟩
        exact ⟨reg, off + len, off + cap, orig, 1, lookup_append_new _ _, rfl, by simp [ro], by simp [rl],
          by simp [rcp], rorig, hA, by simp [rp]⟩

/-- **`Op.advance i n` refines `Recycle.Op.advance n`**, provided a KIND_VEC handle is not pushed beyond
`MAX_VEC_POS = 2^59 - 1` (where the crate promotes the handle and the recycling model does not). -/
theorem step_advance_refines (cfg : Cfg) (e : Env) {s s' : St} (hw : WFx s) {i n : Nat} {v : Val}
    {arc reg : Option Nat} {off len cap orig : Nat}
    (hi : s.hs[i]? = some (some (.mut arc reg off len cap orig))) (r : Rec)
    (hv : RecView s (.mut arc reg off len cap orig) r)
    (hpos : r.arc = false → n = 0 ∨ r.off + n ≤ maxVecPos)
    (hok : step cfg e (.advance i n) s = .ok v s') :
    n ≤ len ∧ Sim s r i s' (Recycle.step r (.advance n)) := by
  simp only [step, bind_apply, getHandle_eq hi] at hok
  by_cases hnl : n > len
  · simp only [hnl, if_true, panic_apply] at hok; cases hok
  · simp only [hnl, if_false, bind_apply] at hok
    cases hm : mutAdvanceUnchecked cfg (.mut arc reg off len cap orig) n s with
    | ok h1 s1 =>
      rw [hm] at hok
      simp only [setHandle_apply, pure_apply] at hok
      obtain ⟨_, rfl⟩ := R.ok.inj hok
      obtain ⟨e1, e2, e3, e4⟩ := advance_refines_gen cfg hw.inv hi (by omega) r hv hm
      rw [if_neg (by intro ⟨a, b, c⟩; rcases hpos a with h | h; exact b h; exact c h)] at e4
      refine ⟨by omega, h1, ?_, e4, by rw [e3, (Recycle.step_frame r (.advance n) rfl).2.1]⟩
      show (s1.hs.set i (some h1))[i]? = some (some h1)
      rw [e1]; exact lookup_set_eq _ hi
    | panic s1 => rw [hm] at hok; cases hok
    | ub w s1 => rw [hm] at hok; cases hok

/-! ## 2. truncate -/

/-- **`Op.truncate i n` refines `Recycle.Op.truncate n`** (no side condition) -/
theorem step_truncate_refines (cfg : Cfg) (e : Env) {s s' : St} (hw : WFx s) {i n : Nat} {v : Val}
    {arc reg : Option Nat} {off len cap orig : Nat}
    (hi : s.hs[i]? = some (some (.mut arc reg off len cap orig))) (r : Rec)
    (hv : RecView s (.mut arc reg off len cap orig) r)
    (hok : step cfg e (.truncate i n) s = .ok v s') :
    Sim s r i s' (Recycle.step r (.truncate n)) := by
  simp only [step, opTruncate, bind_apply, getHandle_eq hi] at hok
  have rl : r.len = len := by
    cases arc with
    | none => exact (RecView_vec.mp hv).2.2.1
    | some c => obtain ⟨_, _, _, _, _, _, _, _, rl, _⟩ := RecView_arc.mp hv; exact rl
  by_cases hnl : n ≤ len
  · simp only [hnl, if_true, bind_apply, setHandle_apply, pure_apply] at hok
    obtain ⟨_, rfl⟩ := R.ok.inj hok
    rw [rstep_truncate r n (by omega)]
    refine ⟨.mut arc reg off n cap orig, lookup_set_eq _ hi, ?_, rfl⟩
    cases arc with
    | none =>
      obtain ⟨ra, ro, _, rcp, rorig, rA, rp⟩ := RecView_vec.mp hv
      exact ⟨ra, ro, rfl, rcp, rorig, rA, rp⟩
    | some c =>
      obtain ⟨vreg, vlen, vcap, vorig, rc, he, ra, ro, _, rcp, rorig, rA, rp⟩ := RecView_arc.mp hv
      exact ⟨vreg, vlen, vcap, vorig, rc, he, ra, ro, rfl, rcp, rorig, rA, rp⟩
  · simp only [hnl, if_false, pure_apply] at hok
    obtain ⟨_, rfl⟩ := R.ok.inj hok
    rw [rstep_truncate_noop r n (by omega)]
    exact ⟨_, hi, hv, rfl⟩

/-! ## 3. append (`extend_from_slice`) -/

theorem rstep_append (r : Rec) (m : Nat) :
    Recycle.step r (.append m) = { Recycle.reserve r m with len := (Recycle.reserve r m).len + m } := rfl

/-- a successful `writeRange` only rewrites the bytes of one region: sizes, control blocks, handles
and events are untouched -/
theorem writeRange_frame {reg : Option Nat} {off : Nat} {bs : List Byte} {s s' : St}
    (h : writeRange reg off bs s = .ok () s') :
    s'.ctrls = s.ctrls ∧ s'.hs = s.hs ∧ s'.events = s.events ∧
      ∀ x, bufSizeL s'.regions x = bufSizeL s.regions x := by
  unfold writeRange at h
  by_cases hb : bs = []
  · simp only [hb, if_true, pure_apply] at h
    obtain ⟨_, rfl⟩ := R.ok.inj h
    exact ⟨rfl, rfl, rfl, fun _ => rfl⟩
  · simp only [hb, if_false] at h
    cases reg with
    | none => simp only [ub_apply] at h; cases h
    | some r0 =>
      simp only [bind_apply, getRegion] at h
      cases hr : s.regions[r0]? with
      | none => simp only [hr] at h; cases h
      | some rg =>
        simp only [hr] at h
        by_cases hl : (!rg.live) = true
        · simp only [hl, if_true, ub_apply] at h; cases h
        · simp only [hl] at h
          by_cases hsz : off + bs.length > rg.size
          · simp only [hsz, if_true, ub_apply] at h; cases h
          · simp only [hsz, if_false] at h
            cases hk : rg.kind with
            | heap o =>
              simp only [hk, setRegion_apply, Bool.false_eq_true, if_false] at h
              obtain ⟨_, rfl⟩ := R.ok.inj h
              refine ⟨rfl, rfl, rfl, fun x => ?_⟩
              cases x with
              | none => rfl
              | some x =>
                simp only [bufSizeL]
                by_cases hx : x = r0
                · subst hx
                  simp [regionSizeL_def, hr, lookup_set_eq _ hr]
                · exact regionSizeL_set_ne _ (Ne.symm hx)
            | static => simp only [hk, ub_apply, Bool.false_eq_true, if_false] at h; cases h
            | ownerMem o => simp only [hk, ub_apply, Bool.false_eq_true, if_false] at h; cases h

/-- `RecViewL` only reads the sizes of the regions -/
theorem RecViewL_congr_size {R R' : List Region} {C : List CtrlE} {h : Handle} {r : Rec}
    (hsz : ∀ x, bufSizeL R' x = bufSizeL R x) (hv : RecViewL R C h r) : RecViewL R' C h r := by
  cases h with
  | bytes _ _ _ _ => exact hv.elim
  | vec _ _ _ => exact hv.elim
  | «mut» arc reg off len cap orig =>
    cases arc with
    | none =>
      obtain ⟨ra, ro, rl, rcp, rorig, rA, rp⟩ := hv
      exact ⟨ra, ro, rl, rcp, rorig, by rw [hsz]; exact rA, rp⟩
    | some c => exact hv

/-- `RecViewL` with a longer view -/
theorem RecViewL_set_len {R : List Region} {C : List CtrlE} {arc reg : Option Nat} {off len cap orig : Nat}
    {r : Rec} (l' : Nat) (hv : RecViewL R C (.mut arc reg off len cap orig) r) :
    RecViewL R C (.mut arc reg off l' cap orig) { r with len := l' } := by
  cases arc with
  | none =>
    obtain ⟨ra, ro, rl, rcp, rorig, rA, rp⟩ := hv
    exact ⟨ra, ro, rfl, rcp, rorig, rA, rp⟩
  | some c =>
    obtain ⟨vreg, vlen, vcap, vorig, rc, he, ra, ro, rl, rcp, rorig, rA, rp⟩ := hv
    exact ⟨vreg, vlen, vcap, vorig, rc, he, ra, ro, rfl, rcp, rorig, rA, rp⟩

theorem RecViewL_len {R : List Region} {C : List CtrlE} {arc reg : Option Nat} {off len cap orig : Nat}
    {r : Rec} (hv : RecViewL R C (.mut arc reg off len cap orig) r) : r.len = len := by
  cases arc with
  | none => exact hv.2.2.1
  | some c => obtain ⟨_, _, _, _, _, _, _, _, rl, _⟩ := hv; exact rl

/-- **`mutExtend` (= `extend_from_slice`) refines `Recycle.Op.append`** (under the weak invariant
`WInv`, which also holds in the middle of `unsplit`) -/
theorem extend_refines_w (cfg : Cfg) (e : Env) {s : St} {arc reg : Option Nat} {off len cap orig : Nat}
    (hW : WInv s (.mut arc reg off len cap orig)) (bs : List Byte) (r : Rec)
    (hv : RecView s (.mut arc reg off len cap orig) r) (h' : Handle) (s' : St)
    (hok : mutExtend cfg e (.mut arc reg off len cap orig) bs s = .ok h' s') :
    s'.hs = s.hs ∧ RecViewL s'.regions s'.ctrls h' (Recycle.step r (.append bs.length)) ∧
    allocCount s'.events + r.allocs = allocCount s.events + (Recycle.step r (.append bs.length)).allocs := by
  simp only [mutExtend, bind_apply] at hok
  cases hm : mutReserve cfg e (.mut arc reg off len cap orig) bs.length s with
  | panic s1 => rw [hm] at hok; cases hok
  | ub w s1 => rw [hm] at hok; cases hok
  | ok h1 s1 =>
    rw [hm] at hok
    obtain ⟨e1, e2, e3⟩ := reserve_refines_w cfg e hW bs.length r hv h1 s1 hm
    have e2' : RecViewL s1.regions s1.ctrls h1 (Recycle.reserve r bs.length) := e2
    obtain ⟨arc1, reg1, off1, len1, cap1, orig1, rfl⟩ := RecView.is_mut (s := s1) e2
    have rl := RecViewL_len e2'
    simp only at hok
    by_cases hc : cap1 - len1 < bs.length
    · simp only [hc, if_true, panic_apply] at hok; cases hok
    · simp only [hc, if_false, bind_apply] at hok
      rw [dassert_eq cfg (by simp; omega)] at hok
      simp only at hok
      cases hw : writeRange reg1 (off1 + len1) bs s1 with
      | panic s2 => rw [hw] at hok; cases hok
      | ub w s2 => rw [hw] at hok; cases hok
      | ok u s2 =>
        rw [hw] at hok
        simp only [pure_apply] at hok
        obtain ⟨rfl, rfl⟩ := R.ok.inj hok
        obtain ⟨f1, f2, f3, f4⟩ := writeRange_frame hw
        rw [rstep_append, rl]
        refine ⟨by rw [f2, e1], ?_, by rw [f3]; exact e3⟩
        rw [f1]
        exact RecViewL_set_len _ (RecViewL_congr_size f4 e2')

/-- **`mutExtend` (= `extend_from_slice`) refines `Recycle.Op.append`** -/
theorem extend_refines (cfg : Cfg) (e : Env) {s : St} (hI : Inv s) {i : Nat}
    {arc reg : Option Nat} {off len cap orig : Nat}
    (hi : s.hs[i]? = some (some (.mut arc reg off len cap orig))) (bs : List Byte) (r : Rec)
    (hv : RecView s (.mut arc reg off len cap orig) r) (h' : Handle) (s' : St)
    (hok : mutExtend cfg e (.mut arc reg off len cap orig) bs s = .ok h' s') :
    s'.hs = s.hs ∧ RecViewL s'.regions s'.ctrls h' (Recycle.step r (.append bs.length)) ∧
    allocCount s'.events + r.allocs = allocCount s.events + (Recycle.step r (.append bs.length)).allocs :=
  extend_refines_w cfg e (winv_of_inv hI hi) bs r hv h' s' hok

/-- **`Op.extend i bs` refines `Recycle.Op.append bs.length`** (no side condition) -/
theorem step_extend_refines (cfg : Cfg) (e : Env) {s s' : St} (hw : WFx s) {i : Nat} {bs : List Byte}
    {v : Val} {arc reg : Option Nat} {off len cap orig : Nat}
    (hi : s.hs[i]? = some (some (.mut arc reg off len cap orig))) (r : Rec)
    (hv : RecView s (.mut arc reg off len cap orig) r)
    (hok : step cfg e (.extend i bs) s = .ok v s') :
    Sim s r i s' (Recycle.step r (.append bs.length)) := by
  simp only [step, bind_apply, getHandle_eq hi] at hok
  cases hm : mutExtend cfg e (.mut arc reg off len cap orig) bs s with
  | ok h1 s1 =>
    rw [hm] at hok
    simp only [setHandle_apply, pure_apply] at hok
    obtain ⟨_, rfl⟩ := R.ok.inj hok
    obtain ⟨e1, e2, e3⟩ := extend_refines cfg e hw.inv hi bs r hv h1 s1 hm
    refine ⟨h1, ?_, e2, e3⟩
    show (s1.hs.set i (some h1))[i]? = some (some h1)
    rw [e1]; exact lookup_set_eq _ hi
  | panic s1 => rw [hm] at hok; cases hok
  | ub w s1 => rw [hm] at hok; cases hok

/-! ## `shallow_clone`: one more reference on the (possibly fresh) control block -/

theorem RecViewL_fields {R : List Region} {C : List CtrlE} {arc reg : Option Nat} {off len cap orig : Nat}
    {r : Rec} (hv : RecViewL R C (.mut arc reg off len cap orig) r) :
    r.off = off ∧ r.len = len ∧ r.cap = cap := by
  cases arc with
  | none => exact ⟨hv.2.1, hv.2.2.1, hv.2.2.2.1⟩
  | some c => obtain ⟨_, _, _, _, _, _, _, ro, rl, rcp, _⟩ := hv; exact ⟨ro, rl, rcp⟩

theorem mut_len_le_cap {s : St} (hI : Inv s) {i : Nat} {arc reg : Option Nat} {off len cap orig : Nat}
    (hi : s.hs[i]? = some (some (.mut arc reg off len cap orig))) : len ≤ cap := by
  have hok0 := hI.hok i _ hi
  cases arc with
  | none => exact (handleOKL_mutV.mp hok0).1
  | some c => exact (handleOKL_mutA.mp hok0).1

/-- `shallow_clone` of the main handle: afterwards *any* KIND_ARC handle `(o, l, cp)` on the returned
control block is related to the promoted record with one more part.  For KIND_VEC this is
`promote_to_shared(2)`: the fresh control block records the handle's `original_capacity_repr`, which
`RecView` (KIND_VEC clause) equates with `r.orig` — so `Rec.promote` keeping `orig` is right. -/
theorem shallowClone_view {s : St} (hI : Inv s) {i : Nat} {arc reg : Option Nat} {off len cap orig : Nat}
    (hi : s.hs[i]? = some (some (.mut arc reg off len cap orig))) (r : Rec)
    (hv : RecView s (.mut arc reg off len cap orig) r) :
    ∃ (c : Nat) (C' : List CtrlE) (ev : List Ev),
      mutShallowClone (.mut arc reg off len cap orig) s =
        .ok (.mut (some c) reg off len cap orig, .mut (some c) reg off len cap orig)
          ⟨s.regions, C', s.hs, s.owners, ev⟩ ∧
      allocCount ev = allocCount s.events ∧
      ∀ o l cp, RecViewL s.regions C' (.mut (some c) reg o l cp orig)
        { Recycle.promote r with off := o, len := l, cap := cp, parts := r.parts + 1 } := by
  have hok0 := hI.hok i _ hi
  cases arc with
  | some c =>
    obtain ⟨vreg, vlen, vcap, vorig, rc, he, ra, ro, rl, rcp, rorig, rA, rp⟩ := RecView_arc.mp hv
    have hrc1 : 1 ≤ rc := (hI.cok c _ he rfl).2.1
    refine ⟨c, s.ctrls.set c ⟨.sharedV vreg vlen vcap vorig, rc + 1, true⟩, s.events,
      by simp [mutShallowClone, incCtrl_eq he rfl], rfl, ?_⟩
    intro o l cp
    have hp : Recycle.promote r = r := by simp [Recycle.promote, ra]
    rw [hp]
    exact ⟨vreg, vlen, vcap, vorig, rc + 1, lookup_set_eq _ he, ra, rfl, rfl, rfl, rorig, rA,
      by show r.parts + 1 = rc + 1 - 1; omega⟩
  | none =>
    obtain ⟨hlc, hoffb, hregc, _⟩ := handleOKL_mutV.mp hok0
    obtain ⟨ra, ro, rl, rcp, rorig, rA, rp⟩ := RecView_vec.mp hv
    have hA : r.A = off + cap := by
      cases reg with
      | none => simp only at hregc; simp [bufSizeL] at rA; omega
      | some r0 => simp only at hregc; simp only [bufSizeL] at rA; omega
    refine ⟨s.ctrls.length, s.ctrls ++ [⟨.sharedV reg (off + len) (off + cap) orig, 2, true⟩],
      .allocCtrl s.ctrls.length :: s.events, by simp [mutShallowClone, mutPromote],
      by simp [allocCount, List.countP_cons, isAlloc], ?_⟩
    intro o l cp
    have hp : Recycle.promote r = { r with arc := true } := by simp [Recycle.promote, ra]
    rw [hp]
    exact ⟨reg, off + len, off + cap, orig, 2, lookup_append_new _ _, rfl, rfl, rfl, rfl, rorig, hA,
      by show r.parts + 1 = 2 - 1; omega⟩

/-! ## 4. split_to -/

theorem rstep_splitTo (r : Rec) (n : Nat) (h : n ≤ r.len) :
    Recycle.step r (.splitTo n) =
      { Recycle.promote r with off := r.off + n, len := r.len - n, cap := r.cap - n,
                               parts := r.parts + 1 } := by
  simp [Recycle.step, Nat.not_lt.mpr h]

/-- `opSplitTo` on the main handle -/
theorem splitTo_refines (cfg : Cfg) {s s' : St} (hI : Inv s) {i n : Nat} {v : Val}
    {arc reg : Option Nat} {off len cap orig : Nat}
    (hi : s.hs[i]? = some (some (.mut arc reg off len cap orig))) (r : Rec)
    (hv : RecView s (.mut arc reg off len cap orig) r)
    (hok : opSplitTo cfg i n s = .ok v s') :
    n ≤ len ∧ Sim s r i s' (Recycle.step r (.splitTo n)) ∧
      ∃ c, s'.hs[s.hs.length]? = some (some (.mut (some c) reg off n n orig)) ∧
        s'.hs[i]? = some (some (.mut (some c) reg (off + n) (len - n) (cap - n) orig)) := by
  simp only [opSplitTo, bind_apply, getHandle_eq hi] at hok
  by_cases hnl : n > len
  · simp only [hnl, if_true, panic_apply] at hok; cases hok
  · simp only [hnl, if_false, bind_apply] at hok
    obtain ⟨c, C', ev, hsc, hev, hview⟩ := shallowClone_view hI hi r hv
    have hlc := mut_len_le_cap hI hi
    obtain ⟨ro, rl, rcp⟩ := RecViewL_fields hv
    simp only [hsc, mutAdvanceUnchecked_arc cfg (show n ≤ cap by omega), setHandle_apply,
      newHandle_apply, pure_apply] at hok
    obtain ⟨_, rfl⟩ := R.ok.inj hok
    have hlt : i < s.hs.length := lookup_lt hi
    have hi' : (s.hs.set i (some (.mut (some c) reg (off + n) (len - n) (cap - n) orig)) ++
        [some (.mut (some c) reg off n n orig)])[i]? =
        some (some (.mut (some c) reg (off + n) (len - n) (cap - n) orig)) :=
      lookup_append_of_some _ (lookup_set_eq _ hi)
    refine ⟨by omega, ⟨_, hi', ?_, ?_⟩, c, ?_, hi'⟩
    · rw [rstep_splitTo r n (by omega), ro, rl, rcp]
      exact hview _ _ _
    · show allocCount ev + r.allocs = _
      rw [hev, (Recycle.step_frame r (.splitTo n) rfl).2.1]
    · have : (s.hs.set i (some (Handle.mut (some c) reg (off + n) (len - n) (cap - n) orig))).length =
          s.hs.length := by simp
      rw [← this]; exact lookup_append_new _ _

/-- **`Op.splitTo i n` refines `Recycle.Op.splitTo n`** (no side condition; `n = 0` and `n = len`
included: both models take the shallow clone — and promote — even for an empty part) -/
theorem step_splitTo_refines (cfg : Cfg) (e : Env) {s s' : St} (hw : WFx s) {i n : Nat} {v : Val}
    {arc reg : Option Nat} {off len cap orig : Nat}
    (hi : s.hs[i]? = some (some (.mut arc reg off len cap orig))) (r : Rec)
    (hv : RecView s (.mut arc reg off len cap orig) r)
    (hok : step cfg e (.splitTo i n) s = .ok v s') :
    n ≤ len ∧ Sim s r i s' (Recycle.step r (.splitTo n)) := by
  have := splitTo_refines cfg hw.inv hi r hv (show opSplitTo cfg i n s = .ok v s' from hok)
  exact ⟨this.1, this.2.1⟩

/-! ## 5. split -/

theorem rstep_split (r : Rec) : Recycle.step r .split = Recycle.step r (.splitTo r.len) := by
  simp [Recycle.step]

/-- **`Op.split i` refines `Recycle.Op.split`** (no side condition) -/
theorem step_split_refines (cfg : Cfg) (e : Env) {s s' : St} (hw : WFx s) {i : Nat} {v : Val}
    {arc reg : Option Nat} {off len cap orig : Nat}
    (hi : s.hs[i]? = some (some (.mut arc reg off len cap orig))) (r : Rec)
    (hv : RecView s (.mut arc reg off len cap orig) r)
    (hok : step cfg e (.split i) s = .ok v s') :
    Sim s r i s' (Recycle.step r .split) := by
  simp only [step, bind_apply, getHandle_eq hi] at hok
  obtain ⟨ro, rl, rcp⟩ := RecViewL_fields hv
  rw [rstep_split, rl]
  exact (splitTo_refines cfg hw.inv hi r hv hok).2.1

/-! ## 6. dropping a part -/

/-- dropping a handle that names a control block is `release` on that block -/
theorem opDrop_ctrl {s : St} {j : Nat} {hj : Handle} {c : Nat} (hjl : s.hs[j]? = some (some hj))
    (hjc : ctrlOf hj = some c) :
    opDrop j s = match releaseCtrl c { s with hs := s.hs.set j none } with
      | .ok _ s1 => .ok .unit s1
      | .panic s1 => .panic s1
      | .ub w s1 => .ub w s1 := by
  cases hj with
  | bytes repr reg off len =>
    cases repr with
    | static => simp [ctrlOf] at hjc
    | owned c' =>
      simp only [ctrlOf, Option.some.injEq] at hjc; subst hjc
      simp only [opDrop, bind_apply, getHandle_eq hjl, killHandle_apply, bytesDrop, pure_apply]
      generalize releaseCtrl c' _ = x; cases x <;> rfl
    | shared c' =>
      simp only [ctrlOf, Option.some.injEq] at hjc; subst hjc
      simp only [opDrop, bind_apply, getHandle_eq hjl, killHandle_apply, bytesDrop, pure_apply]
      generalize releaseCtrl c' _ = x; cases x <;> rfl
    | sharedV c' =>
      simp only [ctrlOf, Option.some.injEq] at hjc; subst hjc
      simp only [opDrop, bind_apply, getHandle_eq hjl, killHandle_apply, bytesDrop, pure_apply]
      generalize releaseCtrl c' _ = x; cases x <;> rfl
    | prom vt oc =>
      cases oc with
      | none => simp [ctrlOf] at hjc
      | some c' =>
        simp only [ctrlOf, Option.some.injEq] at hjc; subst hjc
        simp only [opDrop, bind_apply, getHandle_eq hjl, killHandle_apply, bytesDrop, pure_apply]
        generalize releaseCtrl c' _ = x; cases x <;> rfl
  | «mut» arc reg off len cap orig =>
    cases arc with
    | none => simp [ctrlOf] at hjc
    | some c' =>
      simp only [ctrlOf, Option.some.injEq] at hjc; subst hjc
      simp only [opDrop, bind_apply, getHandle_eq hjl, killHandle_apply, mutDrop, pure_apply]
      generalize releaseCtrl c' _ = x; cases x <;> rfl
  | vec reg len cap => simp [ctrlOf] at hjc

/-- **`Op.drop j` of another live handle on the main handle's control block refines
`Recycle.Op.dropPart`**: the other handle may be a split-off `BytesMut` part or a frozen `Bytes` clone
(`RecView` counts both in `parts`, as `rc - 1`).  In particular `r.parts ≥ 1`. -/
theorem step_dropPart_refines (cfg : Cfg) (e : Env) {s s' : St} (hw : WFx s) {i j c : Nat} {v : Val}
    {reg : Option Nat} {off len cap orig : Nat}
    (hi : s.hs[i]? = some (some (.mut (some c) reg off len cap orig))) (r : Rec)
    (hv : RecView s (.mut (some c) reg off len cap orig) r)
    (hij : j ≠ i) {hj : Handle} (hjl : s.hs[j]? = some (some hj)) (hjc : ctrlOf hj = some c)
    (hok : step cfg e (.drop j) s = .ok v s') :
    1 ≤ r.parts ∧ Sim s r i s' (Recycle.step r .dropPart) ∧
      s'.hs[i]? = some (some (.mut (some c) reg off len cap orig)) := by
  have hI := hw.inv
  obtain ⟨vreg, vlen, vcap, vorig, rc, he, ra, ro, rl, rcp, rorig, rA, rp⟩ := RecView_arc.mp hv
  obtain ⟨hrc, hrc1, _⟩ := hI.cok c _ he rfl
  simp only at hrc hrc1
  have hne1 : rc ≠ 1 := by
    intro h1
    exact hij (refCountL_unique (by rw [← hrc, h1]) hi rfl hjl hjc)
  have hrel := releaseCtrl_dec (s := { s with hs := s.hs.set j none }) he rfl (by simp only; omega) hne1
  have hok' : opDrop j s = .ok v s' := hok
  rw [opDrop_ctrl hjl hjc, hrel] at hok'
  simp only at hok'
  obtain ⟨_, rfl⟩ := R.ok.inj hok'
  have hi' : (s.hs.set j none)[i]? = some (some (.mut (some c) reg off len cap orig)) := by
    rw [lookup_set_ne _ hij]; exact hi
  refine ⟨by omega, ⟨_, hi', ?_, rfl⟩, hi'⟩
  exact ⟨vreg, vlen, vcap, vorig, rc - 1, lookup_set_eq _ he, ra, ro, rl, rcp, rorig, rA,
    by show r.parts - 1 = rc - 1 - 1; omega⟩

/-! ## 7. split_off -/

theorem rstep_splitOffTail (r : Rec) :
    Recycle.step r .splitOffTail =
      { Recycle.promote r with off := r.off, len := min r.len r.len, cap := r.len,
                               parts := r.parts + 1 } := by
  cases r with
  | mk A off len cap arc orig parts pinned allocs =>
    cases arc <;> simp [Recycle.step, Recycle.promote]

/-- `Op.splitOff i k` on the main handle, any `k ≤ cap`: the main handle keeps `[off, off + k)` -/
theorem splitOff_refines (cfg : Cfg) {s s' : St} (hI : Inv s) {i k : Nat} {v : Val}
    {arc reg : Option Nat} {off len cap orig : Nat}
    (hi : s.hs[i]? = some (some (.mut arc reg off len cap orig))) (r : Rec)
    (hv : RecView s (.mut arc reg off len cap orig) r)
    (hok : opSplitOff cfg i k s = .ok v s') :
    k ≤ cap ∧ Sim s r i s'
      { Recycle.promote r with off := r.off, len := min r.len k, cap := k, parts := r.parts + 1 } ∧
      ∃ c, s'.hs[s.hs.length]? = some (some (.mut (some c) reg (off + k) (len - k) (cap - k) orig)) ∧
        s'.hs[i]? = some (some (.mut (some c) reg off (min len k) k orig)) := by
  simp only [opSplitOff, bind_apply, getHandle_eq hi] at hok
  by_cases hkc : k > cap
  · simp only [hkc, if_true, panic_apply] at hok; cases hok
  · simp only [hkc, if_false, bind_apply] at hok
    obtain ⟨c, C', ev, hsc, hev, hview⟩ := shallowClone_view hI hi r hv
    obtain ⟨ro, rl, rcp⟩ := RecViewL_fields hv
    simp only [hsc, mutAdvanceUnchecked_arc cfg (show k ≤ cap by omega), setHandle_apply,
      newHandle_apply, pure_apply] at hok
    obtain ⟨_, rfl⟩ := R.ok.inj hok
    have hi' : (s.hs.set i (some (.mut (some c) reg off (min len k) k orig)) ++
        [some (.mut (some c) reg (off + k) (len - k) (cap - k) orig)])[i]? =
        some (some (.mut (some c) reg off (min len k) k orig)) :=
      lookup_append_of_some _ (lookup_set_eq _ hi)
    refine ⟨by omega, ⟨_, hi', ?_, ?_⟩, c, ?_, hi'⟩
    · rw [ro, rl]
      exact hview _ _ _
    · show allocCount ev + r.allocs = allocCount s.events + (Recycle.promote r).allocs
      rw [hev, Recycle.promote_allocs]
    · have : (s.hs.set i (some (Handle.mut (some c) reg off (min len k) k orig))).length =
          s.hs.length := by simp
      rw [← this]; exact lookup_append_new _ _

/-- **`Op.splitOff i len` refines `Recycle.Op.splitOffTail`** (the side condition `k = len` is what
`splitOffTail` means; for other `k ≤ cap` see `splitOff_refines`) -/
theorem step_splitOffTail_refines (cfg : Cfg) (e : Env) {s s' : St} (hw : WFx s) {i : Nat} {v : Val}
    {arc reg : Option Nat} {off len cap orig : Nat}
    (hi : s.hs[i]? = some (some (.mut arc reg off len cap orig))) (r : Rec)
    (hv : RecView s (.mut arc reg off len cap orig) r)
    (hok : step cfg e (.splitOff i len) s = .ok v s') :
    Sim s r i s' (Recycle.step r .splitOffTail) := by
  obtain ⟨ro, rl, rcp⟩ := RecViewL_fields hv
  have := (splitOff_refines cfg hw.inv hi r hv (show opSplitOff cfg i len s = .ok v s' from hok)).2.1
  rw [rstep_splitOffTail]
  rw [← rl] at this
  exact this

/-! ## 8. unsplit of a contiguous part -/

/-- `*self = other` -/
theorem rstep_unsplitLast_empty (r : Rec) (n cp : Nat) (h0 : r.len = 0) :
    Recycle.step r (.unsplitLast n cp) = { r with len := n, cap := cp, parts := r.parts - 1 } := by
  simp [Recycle.step, h0]

/-- the empty part is dropped -/
theorem rstep_unsplitLast_drop (r : Rec) (n : Nat) (h0 : r.len ≠ 0) :
    Recycle.step r (.unsplitLast n 0) = { r with parts := r.parts - 1 } := by
  simp [Recycle.step, h0]

/-- the halves are merged -/
theorem rstep_unsplitLast_merge (r : Rec) (n cp : Nat) (h0 : r.len ≠ 0) (hc : cp ≠ 0) (hl : r.len = r.cap) :
    Recycle.step r (.unsplitLast n cp) =
      { r with len := r.len + n, cap := r.cap + cp, parts := r.parts - 1 } := by
  simp only [Recycle.step, if_neg h0, if_neg hc, if_pos hl]

/-- the fall-back: `extend_from_slice`, then the part is dropped -/
theorem rstep_unsplitLast_copy (r : Rec) (n cp : Nat) (h0 : r.len ≠ 0) (hc : cp ≠ 0) (hl : r.len ≠ r.cap) :
    Recycle.step r (.unsplitLast n cp) =
      { Recycle.step r (.append n) with parts := (Recycle.step r (.append n)).parts - 1 } := by
  simp only [Recycle.step, if_neg h0, if_neg hc, if_neg hl]

/-- a part that starts where the contents of the main handle end and has capacity: the main handle
is full (`len = cap`) — exclusivity (W4) -/
theorem contiguous_full {s : St} (hI : Inv s) {i j c : Nat} {reg : Option Nat}
    {off len cap orig olen ocap oorig : Nat} (hij : i ≠ j)
    (hi : s.hs[i]? = some (some (.mut (some c) reg off len cap orig)))
    (hj : s.hs[j]? = some (some (.mut (some c) reg (off + len) olen ocap oorig)))
    (hoc : ocap ≠ 0) : len = cap := by
  obtain ⟨hlc, _, _⟩ := handleOKL_mutA.mp (hI.hok i _ hi)
  obtain ⟨_, ⟨vlen, vcap, vorig, hlive, hcapj⟩, _⟩ := handleOKL_mutA.mp (hI.hok j _ hj)
  obtain ⟨ce, he, hl, hct, hrc, hrc1, hbuf⟩ := hI.cok' hlive
  cases reg with
  | none => simp only [ctrlBufOK] at hbuf; omega
  | some r0 =>
    have hd := hI.excl i j _ _ hi hj hij rfl
    have := disjointB_iff.mp hd r0 off cap r0 (off + len) ocap rfl rfl
    omega

/-- **`Op.unsplit i j` of a part `j` on the same control block that starts at the end of the main
handle's contents refines `Recycle.Op.unsplitLast olen ocap`** — no side condition: the three branches
M1 (like `BytesMut::unsplit` / `try_unsplit`) can take for such a part are the first three branches of
`Recycle.step _ (.unsplitLast _ _)`; M1 merges on `ptr + len == other.ptr` alone, the recycling model
asks for `len = cap`, which for a part with capacity is the same by exclusivity (`contiguous_full`).
The fourth branch of the recycling model (fall-back to `extend_from_slice`) is not reachable for a
part in this position; it is what M1 does for a part of the same block elsewhere, see
`step_unsplit_copy_refines`. -/
theorem step_unsplitLast_refines (cfg : Cfg) (e : Env) {s s' : St} (hw : WFx s) {i j c : Nat} {v : Val}
    {reg : Option Nat} {off len cap orig olen ocap oorig : Nat}
    (hi : s.hs[i]? = some (some (.mut (some c) reg off len cap orig))) (r : Rec)
    (hv : RecView s (.mut (some c) reg off len cap orig) r)
    (hj : s.hs[j]? = some (some (.mut (some c) reg (off + len) olen ocap oorig)))
    (hok : step cfg e (.unsplit i j) s = .ok v s') :
    Sim s r i s' (Recycle.step r (.unsplitLast olen ocap)) := by
  have hI := hw.inv
  simp only [step, bind_apply, ite_apply'] at hok
  by_cases hij : i = j
  · simp only [hij, if_true, panic_apply] at hok; cases hok
  simp only [hij, if_false, bind_apply, getHandle_eq hi, getHandle_eq hj] at hok
  obtain ⟨_, _, _⟩ := handleOKL_mutA.mp (hI.hok i _ hi)
  obtain ⟨holc, _, _⟩ := handleOKL_mutA.mp (hI.hok j _ hj)
  obtain ⟨vreg, vlen, vcap, vorig, rc, he, ra, ro, rl, rcp, rorig, rA, rp⟩ := RecView_arc.mp hv
  obtain ⟨hrc, hrc1, _⟩ := hI.cok c _ he rfl
  simp only at hrc hrc1
  have hne1 : rc ≠ 1 := by
    intro h1
    exact hij (refCountL_unique (by rw [← hrc, h1]) hj rfl hi rfl)
  have hrel := releaseCtrl_dec (s := { s with hs := s.hs.set j none }) he rfl (by simp only; omega) hne1
  have hi' : (s.hs.set j none)[i]? = some (some (.mut (some c) reg off len cap orig)) := by
    rw [lookup_set_ne _ (Ne.symm hij)]; exact hi
  -- any view `(o, l, cp)` on the block, once the other reference is released
  have hview : ∀ o l cp g L CP, r.off = o → L = l → CP = cp →
      RecViewL s.regions (s.ctrls.set c ⟨.sharedV vreg vlen vcap vorig, rc - 1, true⟩)
        (.mut (some c) reg o l cp g) { r with len := L, cap := CP, parts := r.parts - 1 } :=
    fun o l cp g L CP h1 h2 h3 => ⟨vreg, vlen, vcap, vorig, rc - 1, lookup_set_eq _ he, ra, h1, h2, h3,
      rorig, rA, by show r.parts - 1 = rc - 1 - 1; omega⟩
  by_cases hl0 : len = 0
  · -- `*self = other`: the old (empty) main handle is dropped, whatever capacity it had
    simp only [hl0, if_true, bind_apply, killHandle_apply, mutDrop, hrel, setHandle_apply, pure_apply] at hok
    obtain ⟨_, rfl⟩ := R.ok.inj hok
    rw [rstep_unsplitLast_empty r olen ocap (by omega)]
    exact ⟨_, lookup_set_eq _ hi', hview _ _ _ _ _ _ (by omega) rfl rfl, rfl⟩
  · by_cases hoc : ocap = 0
    · -- the empty part is dropped, whether or not the main handle is full
      simp only [hl0, if_false, hoc, if_true, bind_apply, killHandle_apply, mutDrop, hrel, pure_apply] at hok
      obtain ⟨_, rfl⟩ := R.ok.inj hok
      rw [hoc, rstep_unsplitLast_drop r olen (by omega)]
      exact ⟨_, hi', hview _ _ _ _ r.len r.cap ro rl rcp, rfl⟩
    · -- the two halves are merged; the main handle is full by exclusivity
      have hlc : len = cap := contiguous_full hI hij hi hj hoc
      simp only [hl0, if_false, hoc, bind_apply] at hok
      rw [if_pos ⟨trivial, trivial, rfl, trivial⟩] at hok
      simp only [bind_apply, killHandle_apply, mutDrop, hrel, setHandle_apply, pure_apply] at hok
      obtain ⟨_, rfl⟩ := R.ok.inj hok
      rw [rstep_unsplitLast_merge r olen ocap (by omega) hoc (by omega)]
      exact ⟨_, lookup_set_eq _ hi', hview _ _ _ _ _ _ ro (by omega) (by omega), rfl⟩

/-! ## 8b. unsplit of a part that cannot be merged: the fall-back to `extend_from_slice` -/

/-- what a frame lemma says: handles, allocation count and region sizes are untouched -/
def Frame (s s' : St) : Prop :=
  s'.hs = s.hs ∧ allocCount s'.events = allocCount s.events ∧ ∀ x, bufSizeL s'.regions x = bufSizeL s.regions x

theorem Frame.rfl' (s : St) : Frame s s := ⟨rfl, rfl, fun _ => rfl⟩
theorem Frame.trans {s s1 s2 : St} (h1 : Frame s s1) (h2 : Frame s1 s2) : Frame s s2 :=
  ⟨h2.1.trans h1.1, h2.2.1.trans h1.2.1, fun x => (h2.2.2 x).trans (h1.2.2 x)⟩

theorem getCtrl_ok {c : Nat} {s s1 : St} {e : CtrlE} (h : getCtrl c s = .ok e s1) : s1 = s := by
  unfold getCtrl at h
  cases hc : s.ctrls[c]? with
  | none => simp only [hc] at h; cases h
  | some e0 =>
    simp only [hc] at h
    by_cases hl : e0.live = true
    · simp only [hl, if_true] at h; exact (R.ok.inj h).2.symm
    · simp only [hl] at h; cases h

theorem freeCtrl_frame {c : Nat} {s s' : St} (h : freeCtrl c s = .ok () s') :
    Frame s s' ∧ s'.regions = s.regions := by
  simp only [freeCtrl, bind_apply] at h
  cases hg : getCtrl c s with
  | panic s1 => rw [hg] at h; cases h
  | ub w s1 => rw [hg] at h; cases h
  | ok e0 s1 =>
    rw [hg] at h
    obtain rfl := getCtrl_ok hg
    simp only [setCtrl_apply, emit_apply] at h
    obtain ⟨_, rfl⟩ := R.ok.inj h
    exact ⟨⟨rfl, by simp [allocCount, List.countP_cons, isAlloc], fun _ => rfl⟩, rfl⟩

theorem freeRegion_frame {r size : Nat} {s s' : St} (h : freeRegion r size s = .ok () s') : Frame s s' := by
  simp only [freeRegion, bind_apply, getRegion] at h
  cases hr : s.regions[r]? with
  | none => simp only [hr] at h; cases h
  | some rg =>
    simp only [hr] at h
    by_cases hl : (!rg.live) = true
    · rw [if_pos hl] at h; cases h
    · rw [if_neg hl] at h
      by_cases hsz : rg.size ≠ size
      · rw [if_pos hsz] at h; cases h
      · rw [if_neg hsz] at h
        cases hk : rg.kind with
        | heap o =>
          simp only [hk, bind_apply, setRegion_apply, emit_apply, Bool.false_eq_true, if_false] at h
          obtain ⟨_, rfl⟩ := R.ok.inj h
          refine ⟨rfl, by simp [allocCount, List.countP_cons, isAlloc], fun x => ?_⟩
          cases x with
          | none => rfl
          | some x =>
            simp only [bufSizeL]
            by_cases hx : x = r
            · subst hx
              simp [regionSizeL_def, hr, lookup_set_eq _ hr]
            · exact regionSizeL_set_ne _ (Ne.symm hx)
        | static => simp only [hk, ub_apply, Bool.false_eq_true, if_false] at h; cases h
        | ownerMem o => simp only [hk, ub_apply, Bool.false_eq_true, if_false] at h; cases h

theorem vecFree_frame {reg : Option Nat} {cap : Nat} {s s' : St} (h : vecFree reg cap s = .ok () s') :
    Frame s s' := by
  cases reg with
  | none =>
    simp only [vecFree] at h
    by_cases h0 : cap = 0
    · simp only [h0, if_true, pure_apply] at h
      obtain ⟨_, rfl⟩ := R.ok.inj h
      exact Frame.rfl' _
    · simp only [h0, if_false, ub_apply] at h; cases h
  | some r =>
    simp only [vecFree] at h
    by_cases h0 : cap = 0
    · simp only [h0, if_true, ub_apply] at h; cases h
    · simp only [h0, if_false] at h
      exact freeRegion_frame h

/-- **a successful `release` of a control block** (whichever branch it takes: the count is decremented,
or the block and its buffer are freed) leaves the handle table, the number of byte-buffer allocations
and the size of every region alone -/
theorem releaseCtrl_frame {c : Nat} {s s' : St} (h : releaseCtrl c s = .ok () s') : Frame s s' := by
  simp only [releaseCtrl, bind_apply] at h
  cases hg : getCtrl c s with
  | panic s1 => rw [hg] at h; cases h
  | ub w s1 => rw [hg] at h; cases h
  | ok e0 s1 =>
    rw [hg] at h
    obtain rfl := getCtrl_ok hg
    simp only [ite_apply'] at h
    by_cases h0 : e0.rc = 0
    · rw [if_pos h0] at h; cases h
    · rw [if_neg h0] at h
      by_cases h1 : e0.rc ≠ 1
      · rw [if_pos h1] at h
        simp only [setCtrl_apply] at h
        obtain ⟨_, rfl⟩ := R.ok.inj h
        exact Frame.rfl' _
      · rw [if_neg h1] at h
        simp only [bind_apply, setCtrl_apply] at h
        obtain ⟨ct, rc, live⟩ := e0
        have hset : ∀ x, Frame s1 { s1 with ctrls := s1.ctrls.set c x } := fun x => ⟨rfl, rfl, fun _ => rfl⟩
        cases ct with
        | sharedB reg cap =>
          simp only [bind_apply] at h
          cases hf : freeRegion reg cap { s1 with ctrls := s1.ctrls.set c ⟨.sharedB reg cap, 0, live⟩ } with
          | panic s2 => rw [hf] at h; cases h
          | ub w s2 => rw [hf] at h; cases h
          | ok u s2 =>
            rw [hf] at h
            exact Frame.trans (Frame.trans (hset _) (freeRegion_frame hf)) (freeCtrl_frame h).1
        | sharedV reg vlen vcap orig =>
          simp only [bind_apply] at h
          cases hf : vecFree reg vcap { s1 with ctrls := s1.ctrls.set c ⟨.sharedV reg vlen vcap orig, 0, live⟩ } with
          | panic s2 => rw [hf] at h; cases h
          | ub w s2 => rw [hf] at h; cases h
          | ok u s2 =>
            rw [hf] at h
            exact Frame.trans (Frame.trans (hset _) (vecFree_frame hf)) (freeCtrl_frame h).1
        | owned o =>
          simp only [bind_apply, emit_apply, modify_apply] at h
          have hfr := (freeCtrl_frame h).1
          refine Frame.trans ?_ hfr
          refine ⟨rfl, by simp [allocCount, List.countP_cons, isAlloc], fun x => ?_⟩
          cases x with
          | none => rfl
          | some x =>
            simp only [bufSizeL, regionSizeL_def, List.getElem?_map]
            cases s1.regions[x]? with
            | none => rfl
            | some rg => simp only [Option.map_some]; split <;> rfl

theorem mutReserveInner_arc_shape (cfg : Cfg) (e : Env) {c : Nat} {reg : Option Nat} {off len cap orig k : Nat}
    {s s' : St} {h' : Handle} {b : Bool}
    (hok : mutReserveInner cfg e (.mut (some c) reg off len cap orig) k true s = .ok (h', b) s') :
    arcOf h' = some c ∨ arcOf h' = none := by
  simp only [mutReserveInner, bind_apply, ite_apply'] at hok
  by_cases hW : len + k ≥ W
  · simp only [hW, if_true, panic_apply] at hok; cases hok
  simp only [hW, if_false] at hok
  cases hg : getCtrl c s with
  | panic s1 => rw [hg] at hok; cases hok
  | ub w s1 => rw [hg] at hok; cases hok
  | ok ce s1 =>
    rw [hg] at hok
    simp only at hok
    obtain ⟨ct, rc, live⟩ := ce
    cases ct with
    | sharedB r0 cp => simp only [ub_apply] at hok; cases hok
    | owned o => simp only [ub_apply] at hok; cases hok
    | sharedV vreg vlen vcap vorig =>
      simp only at hok
      by_cases hu : rc = 1
      · simp only [hu, if_true] at hok
        by_cases h1 : vcap ≥ min (len + k + off) (W - 1)
        · simp only [h1, if_true, pure_apply] at hok
          obtain ⟨hh, _⟩ := R.ok.inj hok
          obtain ⟨rfl, _⟩ := Prod.mk.inj hh
          exact .inl rfl
        · simp only [h1, if_false] at hok
          by_cases h2 : vcap ≥ len + k ∧ off ≥ len
          · simp only [h2, and_self, if_true, bind_apply] at hok
            cases hcw : copyWithin reg off 0 len s1 with
            | panic s2 => rw [hcw] at hok; cases hok
            | ub w s2 => rw [hcw] at hok; cases hok
            | ok u s2 =>
              rw [hcw] at hok
              simp only [pure_apply] at hok
              obtain ⟨hh, _⟩ := R.ok.inj hok
              obtain ⟨rfl, _⟩ := Prod.mk.inj hh
              exact .inl rfl
          · simp only [h2, if_false, Bool.not_true, Bool.false_eq_true] at hok
            by_cases h3 : len + k + off ≥ W
            · simp only [h3, if_true, panic_apply] at hok; cases hok
            · simp only [h3, if_false, bind_apply] at hok
              cases hd : dassert cfg (decide (off + len ≤ vcap)) s1 with
              | panic s2 => rw [hd] at hok; cases hok
              | ub w s2 => rw [hd] at hok; cases hok
              | ok u s2 =>
                rw [hd] at hok
                simp only at hok
                generalize vecReserve e vreg (off + len) vcap _ s2 = X at hok
                cases X with
                | panic s3 => cases hok
                | ub w s3 => cases hok
                | ok p s3 =>
                  simp only [setCtrl_apply, pure_apply, bind_apply] at hok
                  obtain ⟨hh, _⟩ := R.ok.inj hok
                  obtain ⟨rfl, _⟩ := Prod.mk.inj hh
                  exact .inl rfl
      · simp only [hu, if_false, Bool.not_true, Bool.false_eq_true, bind_apply] at hok
        cases hr : readRange reg off len s1 with
        | panic s2 => rw [hr] at hok; cases hok
        | ub w s2 => rw [hr] at hok; cases hok
        | ok bs s2 =>
          rw [hr] at hok
          simp only at hok
          generalize vecNew e bs _ s2 = X at hok
          cases X with
          | panic s3 => cases hok
          | ub w s3 => cases hok
          | ok p s3 =>
            simp only at hok
            cases hrl : releaseCtrl c s3 with
            | panic s4 => rw [hrl] at hok; cases hok
            | ub w s4 => rw [hrl] at hok; cases hok
            | ok u s4 =>
              rw [hrl] at hok
              simp only [pure_apply] at hok
              obtain ⟨hh, _⟩ := R.ok.inj hok
              obtain ⟨rfl, _⟩ := Prod.mk.inj hh
              exact .inr rfl

/-- `extend_from_slice` keeps a KIND_ARC handle on its block or moves it to a fresh KIND_VEC vector -/
theorem mutExtend_arc_shape (cfg : Cfg) (e : Env) {c : Nat} {reg : Option Nat} {off len cap orig : Nat}
    {bs : List Byte} {s s' : St} {h' : Handle}
    (hok : mutExtend cfg e (.mut (some c) reg off len cap orig) bs s = .ok h' s') :
    arcOf h' = some c ∨ arcOf h' = none := by
  simp only [mutExtend, bind_apply] at hok
  cases hm : mutReserve cfg e (.mut (some c) reg off len cap orig) bs.length s with
  | panic s1 => rw [hm] at hok; cases hok
  | ub w s1 => rw [hm] at hok; cases hok
  | ok h1 s1 =>
    rw [hm] at hok
    have hs1 : arcOf h1 = some c ∨ arcOf h1 = none := by
      simp only [mutReserve] at hm
      by_cases hk : bs.length ≤ cap - len
      · rw [if_pos hk] at hm
        obtain ⟨rfl, _⟩ := R.ok.inj hm
        exact .inl rfl
      · rw [if_neg hk] at hm
        simp only [bind_apply] at hm
        cases hin : mutReserveInner cfg e (.mut (some c) reg off len cap orig) bs.length true s with
        | panic s2 => rw [hin] at hm; cases hm
        | ub w s2 => rw [hin] at hm; cases hm
        | ok p s2 =>
          obtain ⟨h2, b⟩ := p
          rw [hin] at hm
          simp only [pure_apply] at hm
          obtain ⟨rfl, _⟩ := R.ok.inj hm
          exact mutReserveInner_arc_shape cfg e hin
    cases h1 with
    | bytes _ _ _ _ => simp only [panic_apply] at hok; cases hok
    | vec _ _ _ => simp only [panic_apply] at hok; cases hok
    | «mut» arc1 reg1 off1 len1 cap1 orig1 =>
      simp only at hok
      by_cases hc : cap1 - len1 < bs.length
      · rw [if_pos hc] at hok; cases hok
      · rw [if_neg hc] at hok
        simp only [bind_apply] at hok
        cases hd : dassert cfg (decide (cap1 - len1 ≥ bs.length)) s1 with
        | panic s2 => rw [hd] at hok; cases hok
        | ub w s2 => rw [hd] at hok; cases hok
        | ok u s2 =>
          rw [hd] at hok
          simp only at hok
          cases hwr : writeRange reg1 (off1 + len1) bs s2 with
          | panic s3 => rw [hwr] at hok; cases hok
          | ub w s3 => rw [hwr] at hok; cases hok
          | ok u3 s3 =>
            rw [hwr] at hok
            simp only [pure_apply] at hok
            obtain ⟨rfl, _⟩ := R.ok.inj hok
            exact hs1

/-- unless `reserve` moves the buffer to a fresh vector (which is KIND_VEC) it keeps the parts -/
theorem reserve_arc_parts (r : Rec) (k : Nat) (h : (Recycle.reserve r k).arc = true) :
    (Recycle.reserve r k).parts = r.parts := by
  rcases Recycle.reserve_cases r k with ⟨_, e⟩ | ⟨_, _, _, e⟩ | ⟨_, _, _, e⟩ | ⟨_, _, _, _, e⟩ |
    ⟨_, _, _, _, _, e⟩ | ⟨_, _, _, _, _, e⟩ | ⟨_, _, _, e⟩
  all_goals (rw [e] at h ⊢)
  · cases h

/-- **`Op.unsplit i j` of a part `j` on the same control block that can *not* be merged refines the
fourth branch of `Recycle.Op.unsplitLast`**: the part does not start at the end of the main handle's
contents (`ooff ≠ off + len`; e.g. it lies behind spare capacity that the main handle got back), has
capacity, and the main handle is neither empty nor full.  M1 — like `BytesMut::unsplit` — falls back to
`extend_from_slice(other)` and then drops the part; `Recycle.step` does `append olen` and then
`parts - 1`.  If the copy does not fit the spare capacity, the part being alive forces a fresh
allocation in both models.  (For a part elsewhere the other three branches of `unsplitLast` are *not*
what M1 does in general: with `len = 0` the main handle takes over the part's offset `ooff`, which the
recycling model — told only `(olen, ocap)` — takes to be `off`; with `len = cap` M1 still copies where
the model merges.  Hence the hypotheses `hl0`, `hnf`.) -/
theorem step_unsplit_copy_refines (cfg : Cfg) (e : Env) {s s' : St} (hw : WFx s) {i j c : Nat} {v : Val}
    {reg : Option Nat} {off len cap orig ooff olen ocap oorig : Nat}
    (hi : s.hs[i]? = some (some (.mut (some c) reg off len cap orig))) (r : Rec)
    (hv : RecView s (.mut (some c) reg off len cap orig) r)
    (hj : s.hs[j]? = some (some (.mut (some c) reg ooff olen ocap oorig)))
    (hl0 : len ≠ 0) (hoc : ocap ≠ 0) (hne : ooff ≠ off + len) (hnf : len ≠ cap)
    (hok : step cfg e (.unsplit i j) s = .ok v s') :
    Sim s r i s' (Recycle.step r (.unsplitLast olen ocap)) := by
  have hI := hw.inv
  simp only [step, bind_apply, ite_apply'] at hok
  by_cases hij : i = j
  · simp only [hij, if_true, panic_apply] at hok; cases hok
  simp only [hij, if_false, bind_apply, getHandle_eq hi, getHandle_eq hj] at hok
  rw [if_neg hl0, if_neg hoc, if_neg (fun h => hne h.2.1)] at hok
  -- the contents of the part
  obtain ⟨_, _, hrdj⟩ := handleOKL_mutA.mp (hI.hok j _ hj)
  obtain ⟨bs, hbs⟩ := Option.isSome_iff_exists.mp hrdj
  have hbl : bs.length = olen := rdL_length hI.regs hbs
  simp only [bind_apply, readRange_of_rdL hbs, killHandle_apply] at hok
  -- the record and the count of the block
  obtain ⟨vreg, vlen, vcap, vorig, rc, he, ra, ro, rl, rcp, rorig, rA, rp⟩ := RecView_arc.mp hv
  obtain ⟨hrc, hrc1, _⟩ := hI.cok c _ he rfl
  simp only at hrc hrc1
  have hne1 : rc ≠ 1 := by
    intro h1
    exact hij (refCountL_unique (by rw [← hrc, h1]) hj rfl hi rfl)
  have hi' : (s.hs.set j none)[i]? = some (some (.mut (some c) reg off len cap orig)) := by
    rw [lookup_set_ne _ (Ne.symm hij)]; exact hi
  rw [rstep_unsplitLast_copy r olen ocap (by omega) hoc (by omega), ← hbl]
  -- `extend_from_slice` in the state where slot `j` is already gone
  have hW : WInv { s with hs := s.hs.set j none } (.mut (some c) reg off len cap orig) :=
    (winv_of_inv hI hi).congr rfl rfl rfl
  have hvk : RecView { s with hs := s.hs.set j none } (.mut (some c) reg off len cap orig) r := hv
  cases hm : mutExtend cfg e (.mut (some c) reg off len cap orig) bs { s with hs := s.hs.set j none } with
  | ub w sx => rw [hm] at hok; cases hok
  | panic sx =>
    rw [hm] at hok
    simp only [bind_apply, mutDrop] at hok
    cases hrl : releaseCtrl c sx with
    | ok u sy => rw [hrl] at hok; cases hok
    | panic sy => rw [hrl] at hok; cases hok
    | ub w sy => rw [hrl] at hok; cases hok
  | ok h' sx =>
    rw [hm] at hok
    obtain ⟨e1, e2, e3⟩ := extend_refines_w cfg e hW bs r hvk h' sx hm
    have hsh := mutExtend_arc_shape cfg e hm
    simp only [bind_apply, setHandle_apply, mutDrop] at hok
    cases hrl : releaseCtrl c { sx with hs := sx.hs.set i (some h') } with
    | panic sy => rw [hrl] at hok; cases hok
    | ub w sy => rw [hrl] at hok; cases hok
    | ok u sy =>
      rw [hrl] at hok
      simp only [pure_apply] at hok
      obtain ⟨_, rfl⟩ := R.ok.inj hok
      obtain ⟨f1, f2, f3⟩ := releaseCtrl_frame hrl
      have hlook : sy.hs[i]? = some (some h') := by
        rw [f1]
        show (sx.hs.set i (some h'))[i]? = some (some h')
        rw [e1]; exact lookup_set_eq _ hi'
      refine ⟨h', hlook, ?_, by rw [f2]; exact e3⟩
      obtain ⟨arc', reg', off', len', cap', orig', rfl⟩ := RecView.is_mut (s := sx) e2
      cases arc' with
      | none =>
        -- moved to a fresh vector: whatever `release` did to the old block does not matter
        obtain ⟨qa, qo, ql, qc, qorig, qA, qp⟩ := e2
        exact ⟨qa, qo, ql, qc, qorig, by rw [f3]; exact qA, by show _ - 1 = 0; rw [qp]⟩
      | some c1 =>
        have hc1 : c1 = c := by
          rcases hsh with h | h
          · exact (Option.some.inj h)
          · cases h
        obtain ⟨vreg', vlen', vcap', vorig', rc', he', qa, qo, ql, qc, qorig, qA, qp⟩ := e2
        rw [hc1] at he'
        have hparts : (Recycle.step r (.append bs.length)).parts = r.parts :=
          reserve_arc_parts r bs.length qa
        have hrc' : rc' ≠ 0 ∧ rc' ≠ 1 := by rw [hparts, rp] at qp; omega
        have hrel := releaseCtrl_dec
          (s := { sx with hs := sx.hs.set i (some (.mut (some c1) reg' off' len' cap' orig')) })
          he' rfl hrc'.1 hrc'.2
        rw [hrel] at hrl
        obtain ⟨_, rfl⟩ := R.ok.inj hrl
        rw [hc1]
        exact ⟨vreg', vlen', vcap', vorig', rc' - 1, lookup_set_eq _ he', qa, qo, ql, qc, qorig, qA,
          by show _ - 1 = rc' - 1 - 1; rw [qp]⟩

/-! ## 9. freeze and back: `roundTrip` -/

/-- **The auxiliary view of a frozen main handle**: relates the `Bytes` handle that `freeze()` made of
the main handle to the record `r` the main handle had *before* the freeze.  A frozen KIND_ARC handle
(`SHARED_VTABLE` of bytes_mut.rs) has forgotten its capacity; a frozen KIND_VEC handle is promotable
(`len = cap`: it still owns its allocation, the `original_capacity_repr` is forgotten), lives on a fresh
`Shared { buf, cap, ref_cnt: 1 }` of bytes.rs (`len ≠ cap`), or is the static empty `Bytes`
(no allocation). -/
def FrozenViewL (R : List Region) (C : List CtrlE) (h : Handle) (r : Rec) : Prop :=
  match h with
  | .bytes (.sharedV c) _ off len =>
    ∃ vreg vlen vcap vorig rc, C[c]? = some ⟨.sharedV vreg vlen vcap vorig, rc, true⟩ ∧
      r.arc = true ∧ r.off = off ∧ r.len = len ∧ r.orig = vorig ∧ r.A = vcap ∧ r.parts = rc - 1
  | .bytes (.prom _ none) reg off len =>
    r.arc = false ∧ r.off = off ∧ r.len = len ∧ r.cap = len ∧ r.A = bufSizeL R reg ∧ r.A ≠ 0 ∧
      r.parts = 0 ∧ off ≤ maxVecPos
  | .bytes (.shared c) _ off len =>
    ∃ r0 bcap, C[c]? = some ⟨.sharedB r0 bcap, 1, true⟩ ∧
      r.arc = false ∧ r.off = off ∧ r.len = len ∧ r.len < r.cap ∧ off + r.cap = bcap ∧ r.A = bcap ∧
      r.parts = 0 ∧ off ≤ maxVecPos
  | .bytes .static reg off len =>
    reg = none ∧ off = 0 ∧ len = 0 ∧
      r.arc = false ∧ r.off = 0 ∧ r.len = 0 ∧ r.cap = 0 ∧ r.A = 0 ∧ r.parts = 0
  | _ => False

def FrozenView (s : St) (h : Handle) (r : Rec) : Prop := FrozenViewL s.regions s.ctrls h r

theorem FrozenView.is_bytes {s : St} {h : Handle} {r : Rec} (hv : FrozenView s h r) :
    ∃ repr reg off len, h = .bytes repr reg off len := by
  cases h with
  | bytes repr reg off len => exact ⟨_, _, _, _, rfl⟩
  | vec _ _ _ => exact hv.elim
  | «mut» arc reg off len cap orig => exact hv.elim

/-! ### `Recycle.step _ .roundTrip`, branch by branch -/

theorem rstep_roundTrip_copy (r : Rec) (hp : r.parts ≠ 0) :
    Recycle.step r .roundTrip =
      { r with A := r.len, off := 0, cap := r.len, arc := false, orig := Recycle.origRepr r.len, parts := 0,
               pinned := r.A :: r.pinned, allocs := if r.len = 0 then r.allocs else r.allocs + 1 } := by
  simp [Recycle.step, hp]

theorem rstep_roundTrip_vec (r : Rec) (hp : r.parts = 0) (ha : r.arc = false) :
    Recycle.step r .roundTrip = { r with orig := Recycle.origRepr r.A } := by
  simp [Recycle.step, hp, ha]

theorem rstep_roundTrip_arc (r : Rec) (hp : r.parts = 0) (ha : r.arc = true) :
    Recycle.step r .roundTrip = { r with cap := r.A - r.off } := by
  simp [Recycle.step, hp, ha]

/-! ### first half: `freeze` -/

/-- **`Op.freeze i` of the main handle** leads to a well-formed state in which slot `i` holds a `Bytes`
handle that is a frozen view of the same record; no byte buffer is allocated (a `Shared` header may be). -/
theorem step_freeze_view (cfg : Cfg) (e : Env) {s s1 : St} (hw : WFx s) {i : Nat} {v : Val}
    {arc reg : Option Nat} {off len cap orig : Nat}
    (hi : s.hs[i]? = some (some (.mut arc reg off len cap orig))) (r : Rec)
    (hv : RecView s (.mut arc reg off len cap orig) r)
    (hok : step cfg e (.freeze i) s = .ok v s1) :
    WFx s1 ∧ ∃ hb, s1.hs[i]? = some (some hb) ∧ FrozenView s1 hb r ∧
      allocCount s1.events = allocCount s.events := by
  refine ⟨Example.WFx_step hw hok trivial, ?_⟩
  have hI := hw.inv
  have hok0 := hI.hok i _ hi
  simp only [step, bind_apply, getHandle_eq hi] at hok
  cases arc with
  | some c =>
    simp only [bind_apply, setHandle_apply, pure_apply] at hok
    obtain ⟨_, rfl⟩ := R.ok.inj hok
    obtain ⟨vreg, vlen, vcap, vorig, rc, he, ra, ro, rl, rcp, rorig, rA, rp⟩ := RecView_arc.mp hv
    exact ⟨_, lookup_set_eq _ hi, ⟨vreg, vlen, vcap, vorig, rc, he, ra, ro, rl, rorig, rA, rp⟩, rfl⟩
  | none =>
    obtain ⟨hlc, hoffb, hregc, hrd⟩ := handleOKL_mutV.mp hok0
    obtain ⟨ra, ro, rl, rcp, rorig, rA, rp⟩ := RecView_vec.mp hv
    simp only [bind_apply, bytesFromVec] at hok
    by_cases hlc' : len = cap
    · subst hlc'
      simp only [if_true] at hok
      by_cases h0 : off + len = 0
      · have ho : off = 0 := by omega
        have hl : len = 0 := by omega
        subst ho hl
        have hreg0 : reg = none := by
          cases reg with
          | none => rfl
          | some r0 =>
            simp only at hregc
            have := heap_size_pos hI.regs hregc.1
            omega
        subst hreg0
        simp only [if_true, pure_apply, Nat.lt_irrefl, gt_iff_lt, if_false, bind_apply,
          setHandle_apply, Nat.add_zero, Nat.sub_self] at hok
        obtain ⟨_, rfl⟩ := R.ok.inj hok
        exact ⟨_, lookup_set_eq _ hi, ⟨rfl, rfl, rfl, ra, ro, rl, rcp, by simpa [bufSizeL] using rA, rp⟩, rfl⟩
      · cases reg with
        | none => simp only at hregc; omega
        | some r0 =>
          simp only at hregc
          have hng : ¬ off > off + len := by omega
          simp only [h0, if_false, bind_apply, regionOdd_eq hregc.1, pure_apply, hng,
            setHandle_apply, Nat.zero_add, Nat.add_sub_cancel_left] at hok
          obtain ⟨_, rfl⟩ := R.ok.inj hok
          refine ⟨_, lookup_set_eq _ hi, ⟨ra, ro, rl, rcp, rA, ?_, rp, hoffb⟩, rfl⟩
          rw [rA]; simp only [bufSizeL]; omega
    · have hne : ¬ off + len = off + cap := by omega
      cases reg with
      | none => simp only at hregc; omega
      | some r0 =>
        simp only at hregc
        have hng : ¬ off > off + len := by omega
        simp only [hne, if_false, bind_apply, newCtrl_apply, pure_apply, hng, setHandle_apply,
          Nat.zero_add, Nat.add_sub_cancel_left] at hok
        obtain ⟨_, rfl⟩ := R.ok.inj hok
        refine ⟨_, lookup_set_eq _ hi, ⟨r0, off + cap, lookup_append_new _ _, ra, ro, rl, ?_, ?_, ?_, rp,
          hoffb⟩, by simp [allocCount, List.countP_cons, isAlloc]⟩
        · rw [rl, rcp]; omega
        · rw [rcp]
        · rw [rA]; simp only [bufSizeL]; omega

/-! ### second half: the conversion back -/

/-- what the conversions conclude about the outcome `m`, `s2` of `bytesIntoMut` in state `s1` -/
def ConclRT (s1 : St) (r : Rec) (m : Handle) (s2 : St) : Prop :=
  s2.hs = s1.hs ∧ RecViewL s2.regions s2.ctrls m (Recycle.step r .roundTrip) ∧
  allocCount s2.events + r.allocs = allocCount s1.events + (Recycle.step r .roundTrip).allocs

/-- **`bytesIntoMut` (the vtable's `to_mut`, i.e. `BytesMut::from(Bytes)`) on a frozen main handle
refines `Recycle.Op.roundTrip`**, branch by branch: unique `shared_v_to_mut` hands back everything
behind the offset; a shared one is copied into a fresh exact-size vector; `promotable_to_mut` and
`shared_to_mut_impl` rebuild the KIND_VEC handle over the whole allocation and re-record
`original_capacity_repr`; the static empty handle becomes a fresh empty `BytesMut`. -/
theorem intoMut_refines (cfg : Cfg) (e : Env) {s1 : St} (hI : Inv s1) {i : Nat} {hb : Handle}
    (hi : s1.hs[i]? = some (some hb)) (r : Rec) (hv : FrozenView s1 hb r) {m : Handle} {s2 : St}
    (hok : bytesIntoMut cfg e hb s1 = .ok m s2) : ConclRT s1 r m s2 := by
  unfold ConclRT
  obtain ⟨repr, reg, off, len, rfl⟩ := hv.is_bytes
  have hok0 := hI.hok i _ hi
  cases repr with
  | owned c => exact hv.elim
  | «static» =>
    obtain ⟨rfl, rfl, rfl, ra, ro, rl, rcp, rA, rp⟩ := hv
    have h1 : bytesIntoMut cfg e (.bytes .static none 0 0) s1 =
        .ok (.mut none none 0 0 0 (originalCapacityToRepr 0)) s1 := by
      simp [bytesIntoMut, toVecCopy, readRange, vecNew_zero, mutFromVec]
    rw [h1] at hok
    obtain ⟨rfl, rfl⟩ := R.ok.inj hok
    rw [rstep_roundTrip_vec r rp ra]
    exact ⟨rfl, ⟨ra, ro, rl, rcp, by show Recycle.origRepr r.A = _; rw [rA]; rfl, by simpa [bufSizeL] using rA, rp⟩,
      rfl⟩
  | prom vt oc =>
    cases oc with
    | some c => exact hv.elim
    | none =>
      obtain ⟨ra, ro, rl, rcp, rA, rA0, rp, hpos⟩ := hv
      obtain ⟨⟨r0, hreg', hlive, hsz, hvt⟩, _⟩ := handleOKL_promV.mp hok0
      subst hreg'
      have hA : r.A = off + len := by rw [rA]; simp only [bufSizeL]; omega
      rcases mutAdvance_from_zero cfg (reg := some r0) (len := off + len) (cap := off + len)
          (orig := originalCapacityToRepr (off + len)) (k := off) (by omega) s1 with
        ⟨_, hadv⟩ | ⟨hp, _⟩
      · have h1 : bytesIntoMut cfg e (.bytes (.prom vt none) (some r0) off len) s1 =
            .ok (.mut none (some r0) off (off + len - off) (off + len - off)
              (originalCapacityToRepr (off + len))) s1 := by
          simp [bytesIntoMut, promDecode_eq hlive hvt, mutFromVec, hadv]
        rw [h1] at hok
        obtain ⟨rfl, rfl⟩ := R.ok.inj hok
        rw [rstep_roundTrip_vec r rp ra]
        refine ⟨rfl, ⟨ra, ro, by show r.len = off + len - off; omega, by show r.cap = off + len - off; omega,
          by show Recycle.origRepr r.A = _; rw [hA]; rfl, rA, rp⟩, rfl⟩
      · exact absurd hpos hp
  | shared c =>
    obtain ⟨r0, bcap, he, ra, ro, rl, rne, rcp, rA, rp, hpos⟩ := hv
    obtain ⟨⟨r0', cap', h1', hreg', hb'⟩, _⟩ := handleOKL_shared.mp hok0
    have hlv : liveCtrlL s1.ctrls c = some (.sharedB r0 bcap) := liveCtrlL_of he rfl
    rw [hlv] at h1'
    obtain ⟨rfl, rfl⟩ : r0 = r0' ∧ bcap = cap' := by simpa using h1'
    subst hreg'
    obtain ⟨_, _, _, _, _, _, hbuf⟩ := hI.cok' hlv
    simp only [ctrlBufOK] at hbuf
    rcases mutAdvance_from_zero cfg (reg := some r0) (len := len + off) (cap := bcap)
        (orig := originalCapacityToRepr bcap) (k := off) (by omega)
        { s1 with ctrls := s1.ctrls.set c ⟨.sharedB r0 bcap, 0, false⟩,
                  events := .deallocCtrl c :: s1.events } with ⟨_, hadv⟩ | ⟨hp, _⟩
    · have h1 : bytesIntoMut cfg e (.bytes (.shared c) (some r0) off len) s1 =
          .ok (.mut none (some r0) off (len + off - off) (bcap - off) (originalCapacityToRepr bcap))
            { s1 with ctrls := s1.ctrls.set c ⟨.sharedB r0 bcap, 0, false⟩,
                      events := .deallocCtrl c :: s1.events } := by
        simp [bytesIntoMut, ctrlIsUnique_eq he rfl, takeSharedB_eq he rfl rfl, mutFromVec, hadv]
      rw [h1] at hok
      obtain ⟨rfl, rfl⟩ := R.ok.inj hok
      rw [rstep_roundTrip_vec r rp ra]
      refine ⟨rfl, ⟨ra, ro, by show r.len = len + off - off; omega, by show r.cap = bcap - off; omega,
        by show Recycle.origRepr r.A = _; rw [rA]; rfl, ?_, rp⟩,
        by simp [allocCount, List.countP_cons, isAlloc]⟩
      show r.A = bufSizeL s1.regions (some r0)
      simp only [bufSizeL]; omega
    · exact absurd hpos hp
  | sharedV c =>
    obtain ⟨vreg, vlen, vcap, vorig, rc, he, ra, ro, rl, rorig, rA, rp⟩ := hv
    obtain ⟨⟨vlen', vcap', vorig', h1', hb'⟩, hrd⟩ := handleOKL_sharedV.mp hok0
    have hlv : liveCtrlL s1.ctrls c = some (.sharedV vreg vlen vcap vorig) := liveCtrlL_of he rfl
    rw [hlv] at h1'
    obtain ⟨rfl, rfl, rfl, rfl⟩ : vreg = reg ∧ vlen = vlen' ∧ vcap = vcap' ∧ vorig = vorig' := by
      simpa using h1'
    obtain ⟨hrc, hrc1, _⟩ := hI.cok c _ he rfl
    simp only at hrc hrc1
    by_cases hu : rc = 1
    · subst hu
      have h1 : bytesIntoMut cfg e (.bytes (.sharedV c) vreg off len) s1 =
          .ok (.mut (some c) vreg off len (vcap - off) vorig) s1 := by
        simp [bytesIntoMut, ctrlIsUnique_eq he rfl, getCtrl_eq he rfl]
      rw [h1] at hok
      obtain ⟨rfl, rfl⟩ := R.ok.inj hok
      have rp0 : r.parts = 0 := by rw [rp]
      rw [rstep_roundTrip_arc r rp0 ra]
      exact ⟨rfl, ⟨vreg, vlen, vcap, vorig, 1, he, ra, ro, rl, by show r.A - r.off = vcap - off; rw [rA, ro],
        rorig, rA, rp⟩, rfl⟩
    · have rp1 : r.parts ≠ 0 := by rw [rp]; omega
      have hu' : (rc == 1) = false := by simpa using hu
      obtain ⟨bs, hbs⟩ := Option.isSome_iff_exists.mp hrd
      rw [rstep_roundTrip_copy r rp1]
      have hexec : bytesIntoMut cfg e (.bytes (.sharedV c) vreg off len) s1 =
          match toVecCopy e vreg off len s1 with
          | .ok x sx =>
            (match releaseCtrl c sx with
             | .ok _ sy => (match x with | .vec r0 l cp => pure (mutFromVec r0 l cp) | _ => panic) sy
             | .panic sy => .panic sy
             | .ub w sy => .ub w sy)
          | .panic sx => .panic sx
          | .ub w sx => .ub w sx := by
        simp only [bytesIntoMut, bind_apply, ctrlIsUnique_eq he rfl, hu', Bool.false_eq_true, if_false]
        cases toVecCopy e vreg off len s1 with
        | ok x sx => simp only []; cases releaseCtrl c sx <;> rfl
        | panic sx => rfl
        | ub w sx => rfl
      rw [hexec] at hok
      rcases toVecCopy_cases e hbs with ⟨hl0, hq⟩ | hq | ⟨hl0, hle, hq⟩
      · subst hl0
        have hrel := releaseCtrl_dec (s := s1) he rfl (by simp only; omega) hu
        simp only [hq, hrel, pure_apply, mutFromVec] at hok
        obtain ⟨rfl, rfl⟩ := R.ok.inj hok
        refine ⟨rfl, ⟨rfl, rfl, rl, rl, by show Recycle.origRepr r.len = _; rw [rl]; rfl,
          by show r.len = bufSizeL _ none; rw [rl]; rfl, rfl⟩, ?_⟩
        show _ = _ + (if r.len = 0 then r.allocs else r.allocs + 1)
        rw [if_pos rl]
      · rw [hq] at hok; cases hok
      · have hrel := releaseCtrl_dec
          (s := ⟨s1.regions ++ [vecRegion bs len (e.odd s1.regions.length)], s1.ctrls, s1.hs, s1.owners,
            .alloc s1.regions.length len :: s1.events⟩) he rfl (by simp only; omega) hu
        simp only [hq, hrel, pure_apply, mutFromVec] at hok
        obtain ⟨rfl, rfl⟩ := R.ok.inj hok
        refine ⟨rfl, ⟨rfl, rfl, rl, rl, by show Recycle.origRepr r.len = _; rw [rl]; rfl, ?_, rfl⟩, ?_⟩
        · show r.len = bufSizeL _ (some s1.regions.length)
          simp [bufSizeL, regionSizeL_new, vecRegion, rl]
        · show _ = _ + (if r.len = 0 then r.allocs else r.allocs + 1)
          rw [if_neg (by omega)]; simp only [allocCount_alloc]; omega

/-- **`Op.intoMut i` (`BytesMut::from(Bytes)`) on the frozen main handle refines
`Recycle.Op.roundTrip`** (all three branches of the recycling model; no side condition) -/
theorem step_intoMut_refines (cfg : Cfg) (e : Env) {s1 s2 : St} (hw1 : WFx s1) {i : Nat} {v : Val}
    {hb : Handle} (hi : s1.hs[i]? = some (some hb)) (r : Rec) (hv : FrozenView s1 hb r)
    (hok : step cfg e (.intoMut i) s1 = .ok v s2) :
    Sim s1 r i s2 (Recycle.step r .roundTrip) := by
  obtain ⟨repr, reg, off, len, rfl⟩ := hv.is_bytes
  simp only [step, bind_apply, getHandle_eq hi] at hok
  cases hm : bytesIntoMut cfg e (.bytes repr reg off len) s1 with
  | ok m sm =>
    rw [hm] at hok
    simp only [setHandle_apply, pure_apply] at hok
    obtain ⟨_, rfl⟩ := R.ok.inj hok
    obtain ⟨e1, e2, e3⟩ := intoMut_refines cfg e hw1.inv hi r hv hm
    refine ⟨m, ?_, e2, e3⟩
    show (sm.hs.set i (some m))[i]? = some (some m)
    rw [e1]; exact lookup_set_eq _ hi
  | panic sm => rw [hm] at hok; cases hok
  | ub w sm => rw [hm] at hok; cases hok

/-- `Bytes::is_unique` on the frozen main handle: unique iff nobody else is on the allocation and there
is an allocation (the static empty `Bytes` is never unique) -/
theorem frozen_isUnique {s1 : St} (hI : Inv s1) {hb : Handle} (r : Rec) (hv : FrozenView s1 hb r) :
    bytesIsUnique hb s1 = .ok (decide (r.parts = 0 ∧ (r.arc = true ∨ r.A ≠ 0))) s1 := by
  obtain ⟨repr, reg, off, len, rfl⟩ := hv.is_bytes
  cases repr with
  | owned c => exact hv.elim
  | «static» =>
    obtain ⟨_, _, _, ra, _, _, _, rA, rp⟩ := hv
    simp [bytesIsUnique, rA, ra]
  | prom vt oc =>
    cases oc with
    | some c => exact hv.elim
    | none =>
      obtain ⟨ra, ro, rl, rcp, rA, rA0, rp, hpos⟩ := hv
      simp [bytesIsUnique, rA0, rp]
  | shared c =>
    obtain ⟨r0, bcap, he, ra, ro, rl, rne, rcp, rA, rp, hpos⟩ := hv
    have : r.A ≠ 0 := by omega
    simp [bytesIsUnique, ctrlIsUnique_eq he rfl, this, rp]
  | sharedV c =>
    obtain ⟨vreg, vlen, vcap, vorig, rc, he, ra, ro, rl, rorig, rA, rp⟩ := hv
    simp only [bytesIsUnique, ctrlIsUnique_eq he rfl]
    by_cases h1 : rc = 1
    · subst h1; simp [rp, ra]
    · have := (hI.cok c _ he rfl).2.1
      simp only at this
      have hp : r.parts ≠ 0 := by omega
      simp [h1, hp]

/-- **`Op.tryIntoMut i` (`Bytes::try_into_mut`) on the frozen main handle**: it succeeds exactly when no
part is alive and there is something to be unique about (`is_unique` of the static empty `Bytes` — a
frozen KIND_VEC handle without allocation — is `false`), and then refines `Recycle.Op.roundTrip`;
otherwise it hands the `Bytes` back (`Err(self)`) and nothing changes. -/
theorem step_tryIntoMut_refines (cfg : Cfg) (e : Env) {s1 s2 : St} (hw1 : WFx s1) {i : Nat} {v : Val}
    {hb : Handle} (hi : s1.hs[i]? = some (some hb)) (r : Rec) (hv : FrozenView s1 hb r)
    (hok : step cfg e (.tryIntoMut i) s1 = .ok v s2) :
    (r.parts = 0 ∧ (r.arc = true ∨ r.A ≠ 0) ∧ v = .handle i ∧ Sim s1 r i s2 (Recycle.step r .roundTrip)) ∨
    (¬ (r.parts = 0 ∧ (r.arc = true ∨ r.A ≠ 0)) ∧ v = .err i ∧ s2 = s1) := by
  simp only [step, bind_apply, getHandle_eq hi, frozen_isUnique hw1.inv r hv] at hok
  by_cases hu : r.parts = 0 ∧ (r.arc = true ∨ r.A ≠ 0)
  · left
    rw [decide_eq_true hu] at hok
    simp only [↓reduceIte, bind_apply] at hok
    obtain ⟨repr, reg, off, len, rfl⟩ := hv.is_bytes
    cases hm : bytesIntoMut cfg e (.bytes repr reg off len) s1 with
    | ok m sm =>
      rw [hm] at hok
      simp only [setHandle_apply, pure_apply] at hok
      obtain ⟨rfl, rfl⟩ := R.ok.inj hok
      obtain ⟨e1, e2, e3⟩ := intoMut_refines cfg e hw1.inv hi r hv hm
      refine ⟨hu.1, hu.2, rfl, m, ?_, e2, e3⟩
      show (sm.hs.set i (some m))[i]? = some (some m)
      rw [e1]; exact lookup_set_eq _ hi
    | panic sm => rw [hm] at hok; cases hok
    | ub w sm => rw [hm] at hok; cases hok
  · right
    rw [decide_eq_false hu] at hok
    simp only [Bool.false_eq_true, ↓reduceIte, pure_apply] at hok
    obtain ⟨rfl, rfl⟩ := R.ok.inj hok
    exact ⟨hu, rfl, rfl⟩

/-- **The round trip refines `Recycle.Op.roundTrip`**: `Op.freeze i` followed by `Op.intoMut i`
(`BytesMut::from(m.freeze())`), or by an `Op.tryIntoMut i` that succeeds (returns the handle rather
than `Err`), leads to a well-formed state whose main handle is related to
`Recycle.step r .roundTrip`; the byte-buffer allocations recorded are the increase of `allocs`. -/
theorem step_roundTrip_refines (cfg : Cfg) (e : Env) {s s1 s2 : St} (hw : WFx s) {i : Nat} {v1 v2 : Val}
    {h : Handle} (hi : s.hs[i]? = some (some h)) (r : Rec) (hv : RecView s h r) {mop : Op}
    (hmop : mop = .intoMut i ∨ (mop = .tryIntoMut i ∧ v2 = .handle i))
    (hf : step cfg e (.freeze i) s = .ok v1 s1) (hm : step cfg e mop s1 = .ok v2 s2) :
    WFx s2 ∧ Sim s r i s2 (Recycle.step r .roundTrip) := by
  obtain ⟨arc, reg, off, len, cap, orig, rfl⟩ := RecView.is_mut hv
  obtain ⟨hw1, hb, hi1, hv1, ha1⟩ := step_freeze_view cfg e hw hi r hv hf
  have hw2 : WFx s2 := by
    rcases hmop with rfl | ⟨rfl, _⟩
    · exact Example.WFx_step hw1 hm trivial
    · exact Example.WFx_step hw1 hm trivial
  refine ⟨hw2, ?_⟩
  have key : Sim s1 r i s2 (Recycle.step r .roundTrip) := by
    rcases hmop with rfl | ⟨rfl, rfl⟩
    · exact step_intoMut_refines cfg e hw1 hi1 r hv1 hm
    · rcases step_tryIntoMut_refines cfg e hw1 hi1 r hv1 hm with ⟨_, _, _, h4⟩ | ⟨_, h2, _⟩
      · exact h4
      · cases h2
  obtain ⟨h', hi', hv', ha'⟩ := key
  exact ⟨h', hi', hv', by omega⟩

/-- **What was wrong with the recycling model's `roundTrip`** (repaired in Model/Recycle.lean).  For a
KIND_VEC handle the model used to keep `orig` when `len = cap` ("promotable") and to re-record it only
otherwise.  M1 — like `promotable_to_mut` and `shared_to_mut_impl` of bytes.rs, which both end in
`BytesMut::from_vec(Vec::from_raw_parts(buf, _, cap))` — re-records `original_capacity_repr` from the
full capacity of the allocation in *both* cases: after the round trip of any KIND_VEC main handle, full
or not, the handle carries `original_capacity_to_repr(off + cap)`.  (The old model therefore disagreed
with M1 on `orig` whenever a full KIND_VEC handle had grown since its creation; the difference becomes
visible in the size of the next allocation made with live parts, see the examples at the end of
Props/C18.lean.) -/
theorem roundTrip_rerecords_orig (cfg : Cfg) (e : Env) {s s1 s2 : St} (hw : WFx s) {i : Nat} {v1 v2 : Val}
    {reg : Option Nat} {off len cap orig : Nat}
    (hi : s.hs[i]? = some (some (.mut none reg off len cap orig))) {mop : Op}
    (hmop : mop = .intoMut i ∨ (mop = .tryIntoMut i ∧ v2 = .handle i))
    (hf : step cfg e (.freeze i) s = .ok v1 s1) (hm : step cfg e mop s1 = .ok v2 s2) :
    ∃ reg', s2.hs[i]? = some (some (.mut none reg' off len cap (originalCapacityToRepr (off + cap)))) := by
  obtain ⟨r, hr⟩ : ∃ r : Rec, r = ⟨bufSizeL s.regions reg, off, len, cap, false, orig, 0, [], 0⟩ := ⟨_, rfl⟩
  have hv : RecView s (.mut none reg off len cap orig) r := by subst hr; exact ⟨rfl, rfl, rfl, rfl, rfl, rfl, rfl⟩
  obtain ⟨hA, hR⟩ := RecView.layout hw.inv hi hv
  have hex := hR.vec_exact (by subst hr; rfl)
  obtain ⟨_, h', hi', hv', _⟩ := step_roundTrip_refines cfg e hw hi r hv hmop hf hm
  rw [rstep_roundTrip_vec r (by subst hr; rfl) (by subst hr; rfl)] at hv'
  obtain ⟨arc', reg', off', len', cap', orig', rfl⟩ := RecView.is_mut hv'
  cases arc' with
  | some c =>
    obtain ⟨_, _, _, _, _, _, ra, _⟩ := RecView_arc.mp hv'
    subst hr; cases ra
  | none =>
    obtain ⟨_, ro, rl, rc, rorig, _, _⟩ := RecView_vec.mp hv'
    simp only at ro rl rc rorig
    refine ⟨reg', ?_⟩
    rw [hi', ← ro, ← rl, ← rc, ← rorig, ← hex]
    subst hr; rfl

/-! ## chaining the steps along a history -/

theorem Sim.trans {s s1 s2 : St} {r r1 r2 : Rec} {i : Nat} (h1 : Sim s r i s1 r1) (h2 : Sim s1 r1 i s2 r2) :
    Sim s r i s2 r2 := by
  obtain ⟨_, _, _, a1⟩ := h1
  obtain ⟨h', hi', hv', a2⟩ := h2
  exact ⟨h', hi', hv', by omega⟩

theorem Sim.refl {s : St} {r : Rec} {i : Nat} {h : Handle} (hi : s.hs[i]? = some (some h))
    (hv : RecView s h r) : Sim s r i s r := ⟨h, hi, hv, rfl⟩

/-- **The side conditions, step by step**: in state `s`, with the main handle in slot `i` related to
`r`, the M1 operation `mop` is the counterpart of the recycling-model operation `rop`. -/
inductive Match (i : Nat) (s : St) (r : Rec) : Recycle.Op → Op → Prop
  | reserve (k : Nat) : Match i s r (.reserve k) (.reserve i k)
  | append (bs : List Byte) : Match i s r (.append bs.length) (.extend i bs)
  /-- a KIND_VEC main handle is not pushed beyond `MAX_VEC_POS` -/
  | advance (n : Nat) (hpos : r.arc = false → n = 0 ∨ r.off + n ≤ maxVecPos) :
      Match i s r (.advance n) (.advance i n)
  | truncate (n : Nat) : Match i s r (.truncate n) (.truncate i n)
  | splitTo (n : Nat) : Match i s r (.splitTo n) (.splitTo i n)
  | split : Match i s r .split (.split i)
  /-- `j` is another live handle (part or frozen clone) on the main handle's control block -/
  | dropPart (j c : Nat) (hj : Handle) (reg : Option Nat) (off len cap orig : Nat) (hij : j ≠ i)
      (hi : s.hs[i]? = some (some (.mut (some c) reg off len cap orig)))
      (hjl : s.hs[j]? = some (some hj)) (hjc : ctrlOf hj = some c) :
      Match i s r .dropPart (.drop j)
  /-- `split_off` at the current length -/
  | splitOffTail (arc reg : Option Nat) (off len cap orig : Nat)
      (hi : s.hs[i]? = some (some (.mut arc reg off len cap orig))) :
      Match i s r .splitOffTail (.splitOff i len)
  /-- `j` is a part on the same control block that starts where the contents of the main handle end -/
  | unsplitLast (j c : Nat) (reg : Option Nat) (off len cap orig olen ocap oorig : Nat)
      (hi : s.hs[i]? = some (some (.mut (some c) reg off len cap orig)))
      (hj : s.hs[j]? = some (some (.mut (some c) reg (off + len) olen ocap oorig))) :
      Match i s r (.unsplitLast olen ocap) (.unsplit i j)
  /-- `j` is a part on the same control block that does *not* start where the contents of the main handle
  end and has capacity, the main handle is neither empty nor full: `unsplit` falls back to copying -/
  | unsplitCopy (j c : Nat) (reg : Option Nat) (off len cap orig ooff olen ocap oorig : Nat)
      (hi : s.hs[i]? = some (some (.mut (some c) reg off len cap orig)))
      (hj : s.hs[j]? = some (some (.mut (some c) reg ooff olen ocap oorig)))
      (hl0 : len ≠ 0) (hoc : ocap ≠ 0) (hne : ooff ≠ off + len) (hnf : len ≠ cap) :
      Match i s r (.unsplitLast olen ocap) (.unsplit i j)

theorem Match.opOK {i : Nat} {s : St} {r : Rec} {rop : Recycle.Op} {mop : Op} (hm : Match i s r rop mop) :
    OpOK mop := by
  cases hm <;> trivial

/-- **One step of the simulation**: a successful M1 step that matches a recycling-model operation
leads to a well-formed state whose main handle is related to `Recycle.step r rop`. -/
theorem step_refines (cfg : Cfg) (e : Env) {s s' : St} (hw : WFx s) {i : Nat} {h : Handle}
    (hi : s.hs[i]? = some (some h)) (r : Rec) (hv : RecView s h r) {rop : Recycle.Op} {mop : Op}
    (hm : Match i s r rop mop) {v : Val} (hok : step cfg e mop s = .ok v s') :
    WFx s' ∧ Sim s r i s' (Recycle.step r rop) := by
  refine ⟨Example.WFx_step hw hok hm.opOK, ?_⟩
  obtain ⟨arc, reg, off, len, cap, orig, rfl⟩ := RecView.is_mut hv
  cases hm with
  | reserve k => exact step_reserve_refines_strong cfg e hw hi r hv hok
  | append bs => exact step_extend_refines cfg e hw hi r hv hok
  | advance n hpos => exact (step_advance_refines cfg e hw hi r hv hpos hok).2
  | truncate n => exact step_truncate_refines cfg e hw hi r hv hok
  | splitTo n => exact (step_splitTo_refines cfg e hw hi r hv hok).2
  | split => exact step_split_refines cfg e hw hi r hv hok
  | dropPart j c hj reg' off' len' cap' orig' hij hi' hjl hjc =>
    rw [hi] at hi'
    obtain ⟨rfl, rfl, rfl, rfl, rfl, rfl⟩ : arc = some c ∧ reg = reg' ∧ off = off' ∧ len = len' ∧
        cap = cap' ∧ orig = orig' := by simpa using hi'
    exact (step_dropPart_refines cfg e hw hi r hv hij hjl hjc hok).2.1
  | splitOffTail arc' reg' off' len' cap' orig' hi' =>
    rw [hi] at hi'
    obtain ⟨rfl, rfl, rfl, rfl, rfl, rfl⟩ : arc = arc' ∧ reg = reg' ∧ off = off' ∧ len = len' ∧
        cap = cap' ∧ orig = orig' := by simpa using hi'
    exact step_splitOffTail_refines cfg e hw hi r hv hok
  | unsplitLast j c reg' off' len' cap' orig' olen ocap oorig hi' hj =>
    rw [hi] at hi'
    obtain ⟨rfl, rfl, rfl, rfl, rfl, rfl⟩ : arc = some c ∧ reg = reg' ∧ off = off' ∧ len = len' ∧
        cap = cap' ∧ orig = orig' := by simpa using hi'
    exact step_unsplitLast_refines cfg e hw hi r hv hj hok
  | unsplitCopy j c reg' off' len' cap' orig' ooff olen ocap oorig hi' hj hl0 hoc hne hnf =>
    rw [hi] at hi'
    obtain ⟨rfl, rfl, rfl, rfl, rfl, rfl⟩ : arc = some c ∧ reg = reg' ∧ off = off' ∧ len = len' ∧
        cap = cap' ∧ orig = orig' := by simpa using hi'
    exact step_unsplit_copy_refines cfg e hw hi r hv hj hl0 hoc hne hnf hok

/-- a successful run of M1 operations from `s` to `s'`, each matched (in the state where it is
issued) with an operation of the recycling model.  `Recycle.Op.roundTrip` is the only operation of the
recycling model that takes two M1 operations: `Op.freeze i`, then the conversion `mop` listed in the
history — `Op.intoMut i`, or an `Op.tryIntoMut i` that succeeds. -/
inductive Run (cfg : Cfg) (e : Env) (i : Nat) : St → Rec → List (Recycle.Op × Op) → St → Prop
  | nil (s : St) (r : Rec) : Run cfg e i s r [] s
  | cons {s s1 s' : St} {r : Rec} {rop : Recycle.Op} {mop : Op} {v : Val} {ps : List (Recycle.Op × Op)}
      (hm : Match i s r rop mop) (hok : step cfg e mop s = .ok v s1)
      (hr : Run cfg e i s1 (Recycle.step r rop) ps s') : Run cfg e i s r ((rop, mop) :: ps) s'
  | roundTrip {s s1 s2 s' : St} {r : Rec} {mop : Op} {v1 v2 : Val} {ps : List (Recycle.Op × Op)}
      (hmop : mop = .intoMut i ∨ (mop = .tryIntoMut i ∧ v2 = .handle i))
      (hf : step cfg e (.freeze i) s = .ok v1 s1) (hok : step cfg e mop s1 = .ok v2 s2)
      (hr : Run cfg e i s2 (Recycle.step r .roundTrip) ps s') :
      Run cfg e i s r ((.roundTrip, mop) :: ps) s'

/-- **The simulation along a history**: after any matched run the state is well-formed and the main
handle is related to `Recycle.run r` of the recycling-model operations; the byte-buffer allocations
M1 recorded are exactly the increase of `allocs`. -/
theorem run_refines (cfg : Cfg) (e : Env) {i : Nat} {s s' : St} {r : Rec} {ps : List (Recycle.Op × Op)}
    (hr : Run cfg e i s r ps s') (hw : WFx s) {h : Handle} (hi : s.hs[i]? = some (some h))
    (hv : RecView s h r) :
    WFx s' ∧ Sim s r i s' (Recycle.run r (ps.map Prod.fst)) := by
  induction hr generalizing h with
  | nil s r => exact ⟨hw, Sim.refl hi hv⟩
  | cons hm hok hr ih =>
    obtain ⟨hw1, hs1⟩ := step_refines cfg e hw hi _ hv hm hok
    have hs1' := hs1
    obtain ⟨h1, hi1, hv1, _⟩ := hs1'
    obtain ⟨hw', hs'⟩ := ih hw1 hi1 hv1
    exact ⟨hw', Sim.trans hs1 hs'⟩
  | roundTrip hmop hf hok hr ih =>
    obtain ⟨hw1, hs1⟩ := step_roundTrip_refines cfg e hw hi _ hv hmop hf hok
    have hs1' := hs1
    obtain ⟨h1, hi1, hv1, _⟩ := hs1'
    obtain ⟨hw', hs'⟩ := ih hw1 hi1 hv1
    exact ⟨hw', Sim.trans hs1 hs'⟩

/-! ## transferring the allocation-size bound of Props/C18.lean to M1 -/

/-- `BytesMut::with_capacity(A₀)` creates a handle related to `Recycle.init A₀` -/
theorem step_withCapacity_view (cfg : Cfg) (e : Env) {s s' : St} {A₀ : Nat} {v : Val}
    (hok : step cfg e (.mutWithCapacity A₀) s = .ok v s') :
    v = .handle s.hs.length ∧ Sim s { Recycle.init A₀ with allocs := 0 } s.hs.length s' (Recycle.init A₀) := by
  simp only [step, bind_apply] at hok
  rcases vecNew_cases e [] A₀ s with ⟨h0, hq⟩ | ⟨hp, hq⟩ | ⟨h0, hle, hq⟩
  · subst h0
    simp only [hq, newHandle_apply, pure_apply] at hok
    obtain ⟨rfl, rfl⟩ := R.ok.inj hok
    refine ⟨rfl, _, lookup_append_new _ _, ?_, rfl⟩
    exact ⟨rfl, rfl, rfl, rfl, rfl, rfl, rfl⟩
  · rw [hq] at hok; cases hok
  · simp only [hq, newHandle_apply, pure_apply] at hok
    obtain ⟨rfl, rfl⟩ := R.ok.inj hok
    refine ⟨rfl, _, lookup_append_new _ _, ?_, ?_⟩
    · refine ⟨rfl, rfl, rfl, rfl, rfl, ?_, rfl⟩
      show A₀ = bufSizeL _ (some s.regions.length)
      simp [bufSizeL, regionSizeL_new]
    · simp [Recycle.init, h0]

/-- **Every allocation the main handle ever lives in is bounded, in M1**: along any matched run of M1
operations whose recycling-model history respects the refill bound `M` (`HistOK`), starting from a
record that satisfies the invariant `SInv` of Props/C18.lean for a bound `Bd ≥ max (4M) 8`, the region
the main handle points into has at most `Bd` bytes. -/
theorem run_region_bounded (cfg : Cfg) (e : Env) {i : Nat} {s s' : St} {r : Rec}
    {ps : List (Recycle.Op × Op)} (M Bd : Nat) (h4 : 4 * M ≤ Bd) (h8 : 8 ≤ Bd)
    (hr : Run cfg e i s r ps s') (hw : WFx s) {h : Handle} (hi : s.hs[i]? = some (some h))
    (hv : RecView s h r) (hS : Recycle.SInv Bd r) (hh : Recycle.HistOK M r (ps.map Prod.fst)) :
    ∃ arc reg off len cap orig, s'.hs[i]? = some (some (.mut arc reg off len cap orig)) ∧
      bufSizeL s'.regions reg ≤ Bd ∧ off + cap ≤ Bd := by
  obtain ⟨hw', h', hi', hv', _⟩ := run_refines cfg e hr hw hi hv
  obtain ⟨arc, reg, off, len, cap, orig, rfl⟩ := RecView.is_mut hv'
  have hS' := Recycle.sinv_run M Bd h4 h8 _ r hS hh
  obtain ⟨hA, hR⟩ := RecView.layout hw'.inv hi' hv'
  obtain ⟨ro, rl, rcp⟩ := RecViewL_fields hv'
  refine ⟨arc, reg, off, len, cap, orig, hi', by rw [← hA]; exact hS'.hA, ?_⟩
  have := hR.in_alloc
  have := hS'.hA
  omega

/-- … in particular from `BytesMut::with_capacity(A₀)`: the bound of `Recycle.alloc_size_bounded`,
`max(A₀, 4M, 8)`, holds for the region of the main handle of M1 after the run (hence, a prefix of a
matched run being a matched run, at every point of it). -/
theorem alloc_size_bounded_M1 (cfg : Cfg) (e : Env) {s0 s s' : St} {A₀ M : Nat} {v : Val}
    {ps : List (Recycle.Op × Op)} (hw0 : WFx s0)
    (h0 : step cfg e (.mutWithCapacity A₀) s0 = .ok v s)
    (hr : Run cfg e s0.hs.length s (Recycle.init A₀) ps s')
    (hh : Recycle.HistOK M (Recycle.init A₀) (ps.map Prod.fst)) :
    ∃ arc reg off len cap orig,
      s'.hs[s0.hs.length]? = some (some (.mut arc reg off len cap orig)) ∧
      bufSizeL s'.regions reg ≤ Recycle.B A₀ M ∧ off + cap ≤ Recycle.B A₀ M ∧
      allocCount s'.events =
        allocCount s0.events + (Recycle.run (Recycle.init A₀) (ps.map Prod.fst)).allocs := by
  have hw : WFx s := Example.WFx_step hw0 h0 trivial
  obtain ⟨_, h, hi, hv, ha⟩ := step_withCapacity_view cfg e h0
  obtain ⟨arc, reg, off, len, cap, orig, hi', hb1, hb2⟩ :=
    run_region_bounded cfg e M (Recycle.B A₀ M) (by simp only [Recycle.B]; omega)
      (by simp only [Recycle.B]; omega) hr hw hi hv (Recycle.sinv_init A₀ M) hh
  obtain ⟨_, _, _, _, ha'⟩ := run_refines cfg e hr hw hi hv
  refine ⟨arc, reg, off, len, cap, orig, hi', hb1, hb2, ?_⟩
  simp only at ha
  omega

/-! ## the remaining side condition is needed: where the two models disagree (and, for `unsplit`,
where they used to) -/

/-- **Disagreement (advance).**  When `advance` pushes a KIND_VEC handle beyond `MAX_VEC_POS`, M1 —
like `advance_unchecked` of the crate — promotes it to KIND_ARC (`promote_to_shared(1)`), whereas
`Recycle.step _ (.advance n)` leaves `arc = false`: the resulting handle is *not* related to
`Recycle.step r (.advance n)` (it is related to that record with `arc := true`, see
`advance_refines_gen`).  Needs a position above `2^59 - 1`, i.e. an allocation of more than half an
exabyte, which `Inv` does not exclude (`isize::MAX = 2^63 - 1`). -/
theorem advance_promote_disagrees (cfg : Cfg) {s : St} (hI : Inv s) {i : Nat} {arc reg : Option Nat}
    {off len cap orig n : Nat} (hi : s.hs[i]? = some (some (.mut arc reg off len cap orig)))
    (hn : n ≤ len) (r : Rec) (hv : RecView s (.mut arc reg off len cap orig) r) {h' : Handle} {s' : St}
    (hok : mutAdvanceUnchecked cfg (.mut arc reg off len cap orig) n s = .ok h' s')
    (hbig : r.arc = false ∧ n ≠ 0 ∧ ¬ r.off + n ≤ maxVecPos) :
    ¬ RecViewL s'.regions s'.ctrls h' (Recycle.step r (.advance n)) := by
  obtain ⟨_, _, _, e4⟩ := advance_refines_gen cfg hI hi hn r hv hok
  rw [if_pos hbig] at e4
  obtain ⟨arc', reg', off', len', cap', orig', rfl⟩ := RecView.is_mut (s := s') e4
  obtain ⟨_, rl, _⟩ := RecViewL_fields hv
  cases arc' with
  | none => exact fun _ => Bool.noConfusion e4.1
  | some c =>
    intro hv2
    obtain ⟨_, _, _, _, _, _, ra, _⟩ := hv2
    rw [rstep_advance r n (by omega)] at ra
    simp only at ra
    rw [hbig.1] at ra; cases ra

namespace Witness
open Example

/-- after `with_capacity(8)`, `split_to(0)`: main handle `(off 0, len 0, cap 8)`, an empty
zero-capacity part at offset 0, both on control block 0 -/
def sA : St :=
  { regions := [⟨8, [none, none, none, none, none, none, none, none], true, .heap false⟩],
    ctrls := [⟨.sharedV (some 0) 0 8 0, 2, true⟩],
    hs := [some (.mut (some 0) (some 0) 0 0 8 0), some (.mut (some 0) (some 0) 0 0 0 0)],
    owners := 0, events := [.allocCtrl 0, .alloc 0 8] }
/-- … `unsplit`: `*self = other`, the main handle has lost its capacity -/
def sA' : St :=
  { regions := [⟨8, [none, none, none, none, none, none, none, none], true, .heap false⟩],
    ctrls := [⟨.sharedV (some 0) 0 8 0, 1, true⟩],
    hs := [some (.mut (some 0) (some 0) 0 0 0 0), none],
    owners := 0, events := [.allocCtrl 0, .alloc 0 8] }

def rA : Rec := { A := 8, off := 0, len := 0, cap := 8, arc := true, orig := 0, parts := 1, pinned := [], allocs := 1 }

theorem stepA1 : step cfg0 env0 (.splitTo 0 0) s1 = .ok (.handle 1) sA := rfl
theorem stepA2 : step cfg0 env0 (.unsplit 0 1) sA = .ok .unit sA' := rfl
theorem wfxA : WFx sA := WFx_step (WFx_step WFx_init step1 trivial) stepA1 trivial
theorem viewA : RecView sA (.mut (some 0) (some 0) 0 0 8 0) rA :=
  ⟨some 0, 0, 8, 0, 2, rfl, rfl, rfl, rfl, rfl, rfl, rfl, rfl⟩
/-- `rA` is what the recycling model computes for this history -/
example : Recycle.run (Recycle.init 8) [.splitTo 0] = rA := by decide
/-- the history respects every side condition of Props/C18.lean -/
example : Recycle.HistOK 16 (Recycle.init 8) [.splitTo 0, .unsplitLast 0 0] := by
  simp [Recycle.HistOK, Recycle.OpOKM, Recycle.step, Recycle.init, Recycle.promote]

/-- **Agreement 1 (unsplit onto an empty main handle with spare capacity)** — formerly a witness of
disagreement.  In `sA` (a reachable, well-formed state; the part in slot 1 starts at `off + len` and is
on the same control block) `BytesMut::unsplit` executes `*self = other` because `self.is_empty()`: the
main handle ends up with capacity 0 and nobody else on the block.  `Recycle.step rA (.unsplitLast 0 0)`
now does the same (`cap = 0`, `parts = 0`), and the handle of `sA'` is related to it — by computation
and as an instance of `step_unsplitLast_refines`. -/
theorem unsplit_empty_agrees :
    WFx sA ∧ sA.hs[0]? = some (some (.mut (some 0) (some 0) 0 0 8 0)) ∧
    RecView sA (.mut (some 0) (some 0) 0 0 8 0) rA ∧
    sA.hs[1]? = some (some (.mut (some 0) (some 0) (0 + 0) 0 0 0)) ∧
    step cfg0 env0 (.unsplit 0 1) sA = .ok .unit sA' ∧
    sA'.hs[0]? = some (some (.mut (some 0) (some 0) 0 0 0 0)) ∧
    Recycle.step rA (.unsplitLast 0 0) = { rA with cap := 0, parts := 0 } ∧
    RecView sA' (.mut (some 0) (some 0) 0 0 0 0) (Recycle.step rA (.unsplitLast 0 0)) :=
  ⟨wfxA, rfl, viewA, rfl, stepA2, rfl, by decide, ⟨some 0, 0, 8, 0, 1, rfl, rfl, rfl, rfl, rfl, rfl, rfl, rfl⟩⟩

example : Sim sA rA 0 sA' (Recycle.step rA (.unsplitLast 0 0)) :=
  step_unsplitLast_refines cfg0 env0 wfxA (i := 0) (j := 1) rfl rA viewA rfl stepA2

/-- `with_capacity(8)`, `extend(4 bytes)`, `split_off(4)` (slot 1: the tail), `split_to(0)` on the tail
(slot 2: an empty zero-capacity part at offset 4), `unsplit` of the tail: the main handle is
`(off 0, len 4, cap 8)` and the empty part sits at `off + len` -/
def sB : St :=
  { regions := [⟨8, [some 1, some 2, some 3, some 4, none, none, none, none], true, .heap false⟩],
    ctrls := [⟨.sharedV (some 0) 4 8 0, 2, true⟩],
    hs := [some (.mut (some 0) (some 0) 0 4 8 0), none, some (.mut (some 0) (some 0) 4 0 0 0)],
    owners := 0, events := [.allocCtrl 0, .alloc 0 8] }
def sB' : St :=
  { regions := [⟨8, [some 1, some 2, some 3, some 4, none, none, none, none], true, .heap false⟩],
    ctrls := [⟨.sharedV (some 0) 4 8 0, 1, true⟩],
    hs := [some (.mut (some 0) (some 0) 0 4 8 0), none, none],
    owners := 0, events := [.allocCtrl 0, .alloc 0 8] }

def rB : Rec := { A := 8, off := 0, len := 4, cap := 8, arc := true, orig := 0, parts := 1, pinned := [], allocs := 1 }

theorem reachB : ∃ t1 t2 v1 v2 v3, step cfg0 env0 (.splitOff 0 4) s2 = .ok v1 t1 ∧
    step cfg0 env0 (.splitTo 1 0) t1 = .ok v2 t2 ∧ step cfg0 env0 (.unsplit 0 1) t2 = .ok v3 sB :=
  ⟨_, _, _, _, _, rfl, rfl, rfl⟩
theorem wfxB : WFx sB := by
  obtain ⟨t1, t2, v1, v2, v3, h1, h2, h3⟩ := reachB
  exact WFx_step (WFx_step (WFx_step (WFx_step (WFx_step WFx_init step1 trivial) step2 trivial) h1 trivial)
    h2 trivial) h3 trivial
theorem stepB : step cfg0 env0 (.unsplit 0 2) sB = .ok .unit sB' := rfl

/-- **Agreement 2 (unsplit of an empty part onto a main handle that is not full)** — formerly a
witness of disagreement.  M1 (like the crate: `other.capacity() == 0` ⇒ `Ok(())`, `other` dropped)
releases the part's reference, so `parts` goes from 1 to 0; `Recycle.step rB (.unsplitLast 0 0)` now
drops the part too although `len ≠ cap`. -/
theorem unsplit_notfull_agrees :
    WFx sB ∧ sB.hs[0]? = some (some (.mut (some 0) (some 0) 0 4 8 0)) ∧
    RecView sB (.mut (some 0) (some 0) 0 4 8 0) rB ∧
    sB.hs[2]? = some (some (.mut (some 0) (some 0) (0 + 4) 0 0 0)) ∧
    step cfg0 env0 (.unsplit 0 2) sB = .ok .unit sB' ∧
    sB'.hs[0]? = some (some (.mut (some 0) (some 0) 0 4 8 0)) ∧
    Recycle.step rB (.unsplitLast 0 0) = { rB with parts := 0 } ∧
    RecView sB' (.mut (some 0) (some 0) 0 4 8 0) (Recycle.step rB (.unsplitLast 0 0)) :=
  ⟨wfxB, rfl, ⟨some 0, 4, 8, 0, 2, rfl, rfl, rfl, rfl, rfl, rfl, rfl, rfl⟩, rfl, stepB, rfl, by decide,
    ⟨some 0, 4, 8, 0, 1, rfl, rfl, rfl, rfl, rfl, rfl, rfl, rfl⟩⟩

example : Sim sB rB 0 sB' (Recycle.step rB (.unsplitLast 0 0)) :=
  step_unsplitLast_refines cfg0 env0 wfxB (i := 0) (j := 2) rfl rB
    ⟨some 0, 4, 8, 0, 2, rfl, rfl, rfl, rfl, rfl, rfl, rfl, rfl⟩ rfl stepB

end Witness

/-! ## non-vacuity: a concrete matched run -/

namespace Example

/-- one round of the recycling loop, M1 side by side with the recycling model: fill, split the message
off, drop it, refill (which reclaims the buffer in place) -/
def round : List (Recycle.Op × Op) :=
  [(.append 4, .extend 0 [1, 2, 3, 4]), (.splitTo 2, .splitTo 0 2), (.advance 1, .advance 0 1),
   (.truncate 0, .truncate 0 0), (.dropPart, .drop 1), (.append 6, .extend 0 [5, 6, 7, 8, 9, 10]),
   (.split, .split 0), (.splitOffTail, .splitOff 0 0)]

/-- the state a successful M1 step leads to -/
def exec (mop : Op) (s : St) : St :=
  match step cfg0 env0 mop s with
  | .ok _ s' => s'
  | _ => s

/-- the M1 state at the end of the round -/
def sEnd : St := round.foldl (fun s p => exec p.2 s) s1

theorem round_run : Run cfg0 env0 0 s1 (Recycle.init 8) round sEnd := by
  refine Run.cons (s' := sEnd) (Match.append [1, 2, 3, 4]) (v := .unit) rfl ?_
  refine Run.cons (s' := sEnd) (Match.splitTo 2) (v := .handle 1) rfl ?_
  refine Run.cons (s' := sEnd) (Match.advance 1 (by decide)) (v := .unit) rfl ?_
  refine Run.cons (s' := sEnd) (Match.truncate 0) (v := .unit) rfl ?_
  refine Run.cons (s' := sEnd) (Match.dropPart 1 0 _ _ _ _ _ _ (by decide) rfl rfl rfl) (v := .unit) rfl ?_
  refine Run.cons (s' := sEnd) (Match.append [5, 6, 7, 8, 9, 10]) (v := .unit) rfl ?_
  refine Run.cons (s' := sEnd) Match.split (v := .handle 2) rfl ?_
  refine Run.cons (s' := sEnd) (Match.splitOffTail _ _ _ 0 _ _ rfl) (v := .handle 3) rfl ?_
  exact Run.nil _ _

example : Recycle.HistOK 16 (Recycle.init 8) (round.map Prod.fst) := by
  simp [round, Recycle.HistOK, Recycle.OpOKM, Recycle.step, Recycle.reserve, Recycle.init, Recycle.promote,
    Recycle.growCap, Recycle.origRepr, Recycle.bitWidth]

/-- the conclusions of `run_refines` and of the transferred bound hold for it -/
example : ∃ s', Run cfg0 env0 0 s1 (Recycle.init 8) round s' ∧ WFx s' ∧
    Sim s1 (Recycle.init 8) 0 s' (Recycle.run (Recycle.init 8) (round.map Prod.fst)) := by
  obtain ⟨s', hr⟩ : ∃ s', Run cfg0 env0 0 s1 (Recycle.init 8) round s' := ⟨_, round_run⟩
  have hv : RecView s1 (.mut none (some 0) 0 0 8 0) (Recycle.init 8) :=
    ⟨rfl, rfl, rfl, rfl, by decide, rfl, rfl⟩
  exact ⟨s', hr, run_refines cfg0 env0 hr (WFx_step WFx_init step1 trivial) (i := 0) rfl hv⟩

example : Recycle.run (Recycle.init 8) (round.map Prod.fst) =
    { A := 8, off := 6, len := 0, cap := 0, arc := true, orig := 0, parts := 2, pinned := [], allocs := 1 } := by
  decide

/-- a second history, through `split_off`, `unsplit` (contiguous halves merged) and `reserve` -/
def round2 : List (Recycle.Op × Op) :=
  [(.append 4, .extend 0 [1, 2, 3, 4]), (.splitOffTail, .splitOff 0 4), (.unsplitLast 0 4, .unsplit 0 1),
   (.reserve 20, .reserve 0 20)]

def sEnd2 : St := round2.foldl (fun s p => exec p.2 s) s1

theorem round2_run : Run cfg0 env0 0 s1 (Recycle.init 8) round2 sEnd2 := by
  refine Run.cons (s' := sEnd2) (Match.append [1, 2, 3, 4]) (v := .unit) rfl ?_
  refine Run.cons (s' := sEnd2) (Match.splitOffTail _ _ _ 4 _ _ rfl) (v := .handle 1) rfl ?_
  refine Run.cons (s' := sEnd2) (Match.unsplitLast 1 0 (some 0) 0 4 4 0 0 4 0 rfl rfl)
    (v := .unit) rfl ?_
  refine Run.cons (s' := sEnd2) (Match.reserve 20) (v := .unit) rfl ?_
  exact Run.nil _ _

example : Recycle.run (Recycle.init 8) (round2.map Prod.fst) =
    { A := 24, off := 0, len := 4, cap := 24, arc := true, orig := 0, parts := 0, pinned := [], allocs := 2 } := by
  decide

example : sEnd2.hs[0]? = some (some (.mut (some 0) (some 1) 0 4 24 0)) ∧ allocCount sEnd2.events = 2 := by
  decide

/-- a third history: the round trip through `Bytes` in all its branches — a KIND_VEC handle with spare
capacity (`Shared { buf, cap }` of bytes.rs and back), a handle with a live part (copied into a fresh
exact-size vector; the old allocation stays with the part), the resulting full KIND_VEC handle
(promotable, through `try_into_mut`), and a unique KIND_ARC handle (`shared_v_to_mut`) -/
def round3 : List (Recycle.Op × Op) :=
  [(.append 4, .extend 0 [1, 2, 3, 4]), (.roundTrip, .intoMut 0), (.splitTo 2, .splitTo 0 2),
   (.roundTrip, .intoMut 0), (.roundTrip, .tryIntoMut 0), (.splitTo 1, .splitTo 0 1), (.dropPart, .drop 2),
   (.roundTrip, .tryIntoMut 0)]

/-- the M1 operations of a history, with the `freeze` of every round trip spelled out -/
def mops (i : Nat) : List (Recycle.Op × Op) → List Op
  | [] => []
  | (.roundTrip, mop) :: ps => .freeze i :: mop :: mops i ps
  | (_, mop) :: ps => mop :: mops i ps

def sEnd3 : St := (mops 0 round3).foldl (fun s mop => exec mop s) s1

theorem round3_run : Run cfg0 env0 0 s1 (Recycle.init 8) round3 sEnd3 := by
  refine Run.cons (s' := sEnd3) (Match.append [1, 2, 3, 4]) (v := .unit) rfl ?_
  refine Run.roundTrip (s' := sEnd3) (.inl rfl) (v1 := .handle 0) (v2 := .handle 0) rfl rfl ?_
  refine Run.cons (s' := sEnd3) (Match.splitTo 2) (v := .handle 1) rfl ?_
  refine Run.roundTrip (s' := sEnd3) (.inl rfl) (v1 := .handle 0) (v2 := .handle 0) rfl rfl ?_
  refine Run.roundTrip (s' := sEnd3) (.inr ⟨rfl, rfl⟩) (v1 := .handle 0) (v2 := .handle 0) rfl rfl ?_
  refine Run.cons (s' := sEnd3) (Match.splitTo 1) (v := .handle 2) rfl ?_
  refine Run.cons (s' := sEnd3) (Match.dropPart 2 2 _ _ _ _ _ _ (by decide) rfl rfl rfl) (v := .unit) rfl ?_
  refine Run.roundTrip (s' := sEnd3) (.inr ⟨rfl, rfl⟩) (v1 := .handle 0) (v2 := .handle 0) rfl rfl ?_
  exact Run.nil _ _

/-- what the recycling model computes for it: the copy made the second allocation (2 bytes, exact
size), the 8-byte one is pinned by the part; the last round trip gives the capacity behind the offset
back (`cap = A - off = 1`) -/
example : Recycle.run (Recycle.init 8) (round3.map Prod.fst) =
    { A := 2, off := 1, len := 1, cap := 1, arc := true, orig := 0, parts := 0, pinned := [8], allocs := 2 } := by
  decide

/-- … and M1 agrees (`run_refines` says so in general) -/
example : sEnd3.hs[0]? = some (some (.mut (some 2) (some 1) 1 1 1 0)) ∧ allocCount sEnd3.events = 2 ∧
    Sim s1 (Recycle.init 8) 0 sEnd3 (Recycle.run (Recycle.init 8) (round3.map Prod.fst)) :=
  ⟨by decide, by decide,
    (run_refines cfg0 env0 round3_run (WFx_step WFx_init step1 trivial) (i := 0) rfl
      ⟨rfl, rfl, rfl, rfl, by decide, rfl, rfl⟩).2⟩

example : Recycle.HistOK 16 (Recycle.init 8) (round3.map Prod.fst) := by
  simp [round3, Recycle.HistOK, Recycle.OpOKM, Recycle.step, Recycle.reserve, Recycle.init, Recycle.promote,
    Recycle.growCap, Recycle.origRepr, Recycle.bitWidth]

/-! the fall-back branch of `unsplitLast` -/

theorem WFx_exec {mop : Op} {s : St} (hw : WFx s) (ho : OpOK mop) : WFx (exec mop s) := by
  unfold exec
  cases h : step cfg0 env0 mop s with
  | ok v s' => exact WFx_step hw h ho
  | panic s' => exact hw
  | ub w s' => exact hw

/-- `with_capacity(8)`, 4 bytes, `split_off(4)` (slot 1: the spare capacity), `truncate(2)`, 3 bytes
written into the tail: the main handle is `(off 0, len 2, cap 4)`, the part `(off 4, len 3, cap 4)` does
not start at `off + len = 2` -/
def sC : St :=
  [Op.extend 0 [1, 2, 3, 4], .splitOff 0 4, .truncate 0 2, .extend 1 [9, 9, 9]].foldl (fun s m => exec m s) s1

theorem wfxC : WFx sC :=
  WFx_exec (mop := .extend 1 [9, 9, 9]) (WFx_exec (mop := .truncate 0 2) (WFx_exec (mop := .splitOff 0 4)
    (WFx_exec (mop := .extend 0 [1, 2, 3, 4]) (WFx_step WFx_init step1 trivial) trivial) trivial) trivial) trivial

def rC : Rec := { A := 8, off := 0, len := 2, cap := 4, arc := true, orig := 0, parts := 1, pinned := [], allocs := 1 }

/-- `unsplit` cannot merge and copies the 3 bytes; they do not fit the 2 bytes of spare capacity and
the part is alive, so the main handle moves to a fresh 5-byte vector (M1 then frees the old allocation
with the part; the recycling model keeps it in `pinned` until a `dropPinned`) -/
example : Recycle.step rC (.unsplitLast 3 4) =
      { A := 5, off := 0, len := 5, cap := 5, arc := false, orig := 0, parts := 0, pinned := [8], allocs := 2 } ∧
    (exec (.unsplit 0 1) sC).hs[0]? = some (some (.mut none (some 1) 0 5 5 0)) ∧
    Sim sC rC 0 (exec (.unsplit 0 1) sC) (Recycle.step rC (.unsplitLast 3 4)) :=
  ⟨by decide, by decide,
    step_unsplit_copy_refines cfg0 env0 wfxC (i := 0) (j := 1) (c := 0) (reg := some 0) (off := 0) (len := 2)
      (cap := 4) (orig := 0) (ooff := 4) (olen := 3) (ocap := 4) (oorig := 0) rfl rC
      ⟨some 0, 4, 8, 0, 2, rfl, rfl, rfl, rfl, rfl, rfl, rfl, rfl⟩ rfl (by decide) (by decide) (by decide)
      (by decide) (v := .unit) rfl⟩

/-- `try_into_mut` does not succeed on the frozen *empty* KIND_VEC handle without allocation
(`BytesMut::new().freeze()` is the static empty `Bytes`, whose `is_unique` is `false`): the handle comes
back as `Err`, so the round trip through `try_into_mut` only refines `roundTrip` when there is an
allocation (`step_tryIntoMut_refines`); through `BytesMut::from` it always does. -/
example : ∃ s0 sF, step cfg0 env0 (.mutWithCapacity 0) {} = .ok (.handle 0) s0 ∧
    step cfg0 env0 (.freeze 0) s0 = .ok (.handle 0) sF ∧
    sF.hs[0]? = some (some (.bytes .static none 0 0)) ∧
    step cfg0 env0 (.tryIntoMut 0) sF = .ok (.err 0) sF ∧
    ∃ sM, step cfg0 env0 (.intoMut 0) sF = .ok (.handle 0) sM ∧
      RecView sM (.mut none none 0 0 0 0) (Recycle.step (Recycle.init 0) .roundTrip) :=
  ⟨_, _, rfl, rfl, rfl, rfl, _, rfl, ⟨rfl, rfl, rfl, rfl, by decide, rfl, rfl⟩⟩

end Example


/-! ## tying `pinned`: the relation `RecViewP` -/

/-- what a control block contributes to the pinned list: a live `Shared` of bytes_mut.rs keeps its
vector (of capacity `vcap`, possibly 0) alive -/
def ctrlPinned : CtrlE → Option Nat
  | ⟨.sharedV _ _ vcap _, _, true⟩ => some vcap
  | _ => none

/-- the capacities of the vectors of the live `Shared` blocks other than `c0`, *oldest first*
(`k` is the index of the head of the list) -/
def sharedSizes (c0 : Option Nat) : List CtrlE → Nat → List Nat
  | [], _ => []
  | e :: es, k => (if some k = c0 then [] else (ctrlPinned e).toList) ++ sharedSizes c0 es (k + 1)

/-- … newest first, as `Rec.pinned` lists them -/
def pinnedL (C : List CtrlE) (c0 : Option Nat) : List Nat := (sharedSizes c0 C 0).reverse

/-- **`RecView` with `pinned` tied down**: in addition to `RecView`, `r.pinned` lists (newest first)
the sizes of the older allocations that are kept alive only by parts — the vectors of all live `Shared`
blocks of bytes_mut.rs other than the one the main handle is on — and the main handle's block, if it
has one, is the newest of them (blocks are created by `promote_to_shared`, always on the current
allocation).  Meant for the states of a recycling loop, where every such block stems from the main
handle; `allocs` stays unconstrained (it is tied to the event list by `Sim`). -/
def RecViewP (s : St) (h : Handle) (r : Rec) : Prop :=
  RecView s h r ∧ r.pinned = pinnedL s.ctrls (arcOf h) ∧
    ∀ c, arcOf h = some c → ∀ (c' : Nat) (e : CtrlE), c < c' → s.ctrls[c']? = some e → ctrlPinned e = none

theorem RecViewP.view {s : St} {h : Handle} {r : Rec} (hv : RecViewP s h r) : RecView s h r := hv.1

/-! ### list lemmas -/

/-- replacing a block by one with the same contribution (e.g. another reference count) -/
theorem sharedSizes_set_same (c0 : Option Nat) {e e' : CtrlE} (he : ctrlPinned e' = ctrlPinned e) :
    ∀ (es : List CtrlE) (k c : Nat), es[c]? = some e → sharedSizes c0 (es.set c e') k = sharedSizes c0 es k := by
  intro es
  induction es with
  | nil => intro k c h; simp at h
  | cons x xs ih =>
    intro k c h
    cases c with
    | zero =>
      simp only [List.getElem?_cons_zero, Option.some.injEq] at h
      subst h
      simp only [List.set_cons_zero, sharedSizes, he]
    | succ c =>
      simp only [List.getElem?_cons_succ] at h
      simp only [List.set_cons_succ, sharedSizes, ih (k + 1) c h]

/-- the main handle leaves its block `c`, the newest one: the block joins the list at the new end -/
theorem sharedSizes_leave {e : CtrlE} {v : Nat} (he : ctrlPinned e = some v) :
    ∀ (es : List CtrlE) (k c : Nat), es[c]? = some e →
      (∀ (c' : Nat) (e' : CtrlE), c < c' → es[c']? = some e' → ctrlPinned e' = none) →
      sharedSizes none es k = sharedSizes (some (k + c)) es k ++ [v] := by
  intro es
  induction es with
  | nil => intro k c h; simp at h
  | cons x xs ih =>
    intro k c h hnew
    cases c with
    | zero =>
      simp only [List.getElem?_cons_zero, Option.some.injEq] at h
      subst h
      -- nothing behind the head contributes
      have hrest : ∀ (ys : List CtrlE) (j : Nat) (c0 : Option Nat),
          (∀ (c' : Nat) (e' : CtrlE), ys[c']? = some e' → ctrlPinned e' = none) → sharedSizes c0 ys j = [] := by
        intro ys
        induction ys with
        | nil => intros; rfl
        | cons y ys ihy =>
          intro j c0 hy
          have h0 := hy 0 y rfl
          simp only [sharedSizes, h0, Option.toList_none, ite_self, List.nil_append]
          exact ihy (j + 1) c0 (fun c' e' hc' => hy (c' + 1) e' (by simpa using hc'))
      have hxs : ∀ (c' : Nat) (e' : CtrlE), xs[c']? = some e' → ctrlPinned e' = none :=
        fun c' e' hc' => hnew (c' + 1) e' (by omega) (by simpa using hc')
      simp [sharedSizes, he, hrest xs (k + 1) _ hxs]
    | succ c =>
      simp only [List.getElem?_cons_succ] at h
      have hnew' : ∀ (c' : Nat) (e' : CtrlE), c < c' → xs[c']? = some e' → ctrlPinned e' = none :=
        fun c' e' hlt hc' => hnew (c' + 1) e' (by omega) (by simpa using hc')
      have := ih (k + 1) c h hnew'
      have hk : k + 1 + c = k + (c + 1) := by omega
      rw [hk] at this
      have hne : ¬ (some k = some (k + (c + 1))) := by intro h; injection h with h; omega
      simp only [sharedSizes, this, hne, if_false, reduceCtorEq, List.append_assoc]

/-- the oldest contributing block dies -/
theorem sharedSizes_kill (c0 : Option Nat) {e e' : CtrlE} {v : Nat} (he : ctrlPinned e = some v)
    (he' : ctrlPinned e' = none) :
    ∀ (es : List CtrlE) (k c : Nat), es[c]? = some e → some (k + c) ≠ c0 →
      (∀ (c'' : Nat) (e'' : CtrlE), c'' < c → es[c'']? = some e'' → some (k + c'') ≠ c0 → ctrlPinned e'' = none) →
      sharedSizes c0 es k = v :: sharedSizes c0 (es.set c e') k := by
  intro es
  induction es with
  | nil => intro k c h; simp at h
  | cons x xs ih =>
    intro k c h hc0 hold
    cases c with
    | zero =>
      simp only [List.getElem?_cons_zero, Option.some.injEq] at h
      subst h
      have hc0' : ¬ some k = c0 := by simpa using hc0
      simp [sharedSizes, hc0', he, he']
    | succ c =>
      simp only [List.getElem?_cons_succ] at h
      have hk : k + 1 + c = k + (c + 1) := by omega
      have := ih (k + 1) c h (by rw [hk]; exact hc0)
        (fun c'' e'' hlt hc'' hne => hold (c'' + 1) e'' (by omega) (by simpa using hc'')
          (by rw [show k + (c'' + 1) = k + 1 + c'' by omega]; exact hne))
      have hx : (if some k = c0 then [] else (ctrlPinned x).toList) = [] := by
        by_cases hk0 : some k = c0
        · simp [hk0]
        · have := hold 0 x (by omega) rfl (by simpa using hk0)
          simp [hk0, this]
      simp only [List.set_cons_succ, sharedSizes, hx, List.nil_append, this]

/-! ### the shared branch of `reserve` -/

/-- `reserve` on a KIND_ARC handle that shares its block with live parts and has to grow: the handle
moves to a fresh KIND_VEC vector, its old block only loses one reference -/
theorem mutReserve_shared_ctrls {s : St} (hI : Inv s) (cfg : Cfg) (e : Env) {i c : Nat} {reg : Option Nat}
    {off len cap orig : Nat} (hi : s.hs[i]? = some (some (.mut (some c) reg off len cap orig)))
    (k : Nat) (hadd : ¬ k ≤ cap - len) {vreg : Option Nat} {vlen vcap vorig rc : Nat}
    (he : s.ctrls[c]? = some ⟨.sharedV vreg vlen vcap vorig, rc, true⟩) (hu : rc ≠ 1)
    {h' : Handle} {s' : St}
    (hok : mutReserve cfg e (.mut (some c) reg off len cap orig) k s = .ok h' s') :
    s'.ctrls = s.ctrls.set c ⟨.sharedV vreg vlen vcap vorig, rc - 1, true⟩ ∧ arcOf h' = none := by
  have hok0 := hI.hok i _ hi
  obtain ⟨hlc, _, hrd⟩ := handleOKL_mutA.mp hok0
  obtain ⟨v, hv0⟩ := Option.isSome_iff_exists.mp hrd
  have hrc1 : 1 ≤ rc := (hI.cok c _ he rfl).2.1
  by_cases hW : len + k ≥ W
  · exfalso
    have h1 : mutReserveInner cfg e (.mut (some c) reg off len cap orig) k true s = .panic s := by
      simp only [mutReserveInner, bind_apply, ite_apply', if_pos hW, if_true, panic_apply]
    rw [mutReserve_of_inner_panic hadd h1] at hok
    cases hok
  have hget : getCtrl c s = .ok ⟨.sharedV vreg vlen vcap vorig, rc, true⟩ s := getCtrl_eq (s := s) he rfl
  obtain ⟨T, hT⟩ : ∃ T, T = max (len + k) (originalCapacityFromRepr vorig) := ⟨_, rfl⟩
  have hTle : len + k ≤ T := by rw [hT]; exact Nat.le_max_left _ _
  have hT0 : T ≠ 0 := by omega
  have hrdX : readRange reg off len s = .ok v s := readRange_of_rdL (s := s) hv0
  by_cases hTmax : T > isizeMax
  · exfalso
    have h1 : mutReserveInner cfg e (.mut (some c) reg off len cap orig) k true s = .panic s := by
      simp only [mutReserveInner, bind_apply, ite_apply', if_neg hW, hget, if_neg hu, Bool.not_true,
        Bool.false_eq_true, if_false, hrdX, ← hT, vecNew_panic e v hTmax]
    rw [mutReserve_of_inner_panic hadd h1] at hok
    cases hok
  · have hTmax' : T ≤ isizeMax := by omega
    have hrel : releaseCtrl c ⟨s.regions ++ [vecRegion v T (e.odd s.regions.length)], s.ctrls, s.hs,
          s.owners, .alloc s.regions.length T :: s.events⟩ = .ok ()
        ⟨s.regions ++ [vecRegion v T (e.odd s.regions.length)],
          s.ctrls.set c ⟨.sharedV vreg vlen vcap vorig, rc - 1, true⟩, s.hs, s.owners,
          .alloc s.regions.length T :: s.events⟩ :=
      releaseCtrl_dec (s := ⟨s.regions ++ [vecRegion v T (e.odd s.regions.length)], s.ctrls, s.hs,
        s.owners, .alloc s.regions.length T :: s.events⟩) he rfl (by simp only; omega) hu
    have h1 : mutReserveInner cfg e (.mut (some c) reg off len cap orig) k true s =
        .ok (.mut none (some s.regions.length) 0 len T vorig, true)
          ⟨s.regions ++ [vecRegion v T (e.odd s.regions.length)],
            s.ctrls.set c ⟨.sharedV vreg vlen vcap vorig, rc - 1, true⟩, s.hs, s.owners,
            .alloc s.regions.length T :: s.events⟩ := by
      simp only [mutReserveInner, bind_apply, ite_apply', if_neg hW, hget, if_neg hu, Bool.not_true,
        Bool.false_eq_true, if_false, hrdX, ← hT, vecNew_eq' e v hT0 hTmax', hrel, pure_apply]
    rw [mutReserve_of_inner hadd h1] at hok
    obtain ⟨rfl, rfl⟩ := R.ok.inj hok
    exact ⟨rfl, rfl⟩

/-- **The shared branch of `reserve` preserves `RecViewP`**: when the main handle shares its block with
live parts and has to grow (`Recycle.reserve`'s last branch: `pinned := r.A :: r.pinned`), the old
allocation — still held by the parts through the block the main handle leaves — becomes the newest
entry of the pinned list. -/
theorem step_reserve_shared_refinesP (cfg : Cfg) (e : Env) {s s' : St} (hw : WFx s) {i k : Nat} {v : Val}
    {c : Nat} {reg : Option Nat} {off len cap orig : Nat}
    (hi : s.hs[i]? = some (some (.mut (some c) reg off len cap orig))) (r : Rec)
    (hv : RecViewP s (.mut (some c) reg off len cap orig) r)
    (hadd : ¬ k ≤ cap - len) (hp : r.parts ≠ 0)
    (hok : step cfg e (.reserve i k) s = .ok v s') :
    (Recycle.reserve r k).pinned = r.A :: r.pinned ∧
    ∃ h', s'.hs[i]? = some (some h') ∧ RecViewP s' h' (Recycle.reserve r k) ∧
      allocCount s'.events + r.allocs = allocCount s.events + (Recycle.reserve r k).allocs := by
  obtain ⟨hv1, hpin, hnew⟩ := hv
  obtain ⟨vreg, vlen, vcap, vorig, rc, he, ra, ro, rl, rcp, rorig, rA, rp⟩ := RecView_arc.mp hv1
  have hu : rc ≠ 1 := by rw [rp] at hp; omega
  have e1 := rsv_arc_shared r k (by rw [rcp, rl]; exact hadd) ra hp
  have epin : (Recycle.reserve r k).pinned = r.A :: r.pinned := by rw [e1]
  refine ⟨epin, ?_⟩
  obtain ⟨h', hi', hv', ha'⟩ := step_reserve_refines_strong cfg e hw hi r hv1 hok
  -- the new control blocks and the shape of the new handle
  have key : s'.ctrls = s.ctrls.set c ⟨.sharedV vreg vlen vcap vorig, rc - 1, true⟩ ∧ arcOf h' = none := by
    simp only [step, bind_apply, getHandle_eq hi] at hok
    cases hm : mutReserve cfg e (.mut (some c) reg off len cap orig) k s with
    | panic s1 => rw [hm] at hok; cases hok
    | ub w s1 => rw [hm] at hok; cases hok
    | ok h1 s1 =>
      rw [hm] at hok
      simp only [setHandle_apply, pure_apply] at hok
      obtain ⟨_, rfl⟩ := R.ok.inj hok
      obtain ⟨hC, harc⟩ := mutReserve_shared_ctrls hw.inv cfg e hi k hadd he hu hm
      have hs1 := (reserve_refines_strong cfg e hw.inv hi k r hv1 h1 s1 hm).1
      have hh : h' = h1 := by
        have : (s1.hs.set i (some h1))[i]? = some (some h1) := by rw [hs1]; exact lookup_set_eq _ hi
        have hi'' : (s1.hs.set i (some h1))[i]? = some (some h') := hi'
        rw [this] at hi''
        exact (Option.some.inj (Option.some.inj hi'')).symm
      subst hh
      exact ⟨hC, harc⟩
  obtain ⟨hC, harc⟩ := key
  refine ⟨h', hi', ⟨hv', ?_, ?_⟩, ha'⟩
  · -- the pinned list
    rw [epin, harc, hC, hpin, rA]
    unfold pinnedL
    rw [sharedSizes_set_same none (e := ⟨.sharedV vreg vlen vcap vorig, rc, true⟩)
      (e' := ⟨.sharedV vreg vlen vcap vorig, rc - 1, true⟩) rfl _ 0 c he]
    have := sharedSizes_leave (e := ⟨.sharedV vreg vlen vcap vorig, rc, true⟩) (v := vcap) rfl s.ctrls 0 c he
      (hnew c rfl)
    rw [this, Nat.zero_add, List.reverse_append]
    rfl
  · -- a KIND_VEC handle has no block
    intro c0 hc0
    rw [harc] at hc0; cases hc0

/-! ### `dropPinned` -/

/-- `release` of the last reference to a `Shared` of bytes_mut.rs, with the events spelled out: only
deallocations are recorded -/
theorem releaseCtrl_last_sharedV {s : St} {c : Nat} {reg : Option Nat} {vlen vcap orig : Nat}
    (hc : s.ctrls[c]? = some ⟨.sharedV reg vlen vcap orig, 1, true⟩)
    (hb : ctrlBufOK s.regions s.owners (.sharedV reg vlen vcap orig))
    (hR : ∀ (r : Nat) (rg : Region), s.regions[r]? = some rg → regionOKB rg = true) :
    ∃ ev, allocCount ev = allocCount s.events ∧ releaseCtrl c s = .ok ()
      { s with regions := freeBuf s.regions (.sharedV reg vlen vcap orig),
               ctrls := s.ctrls.set c ⟨.sharedV reg vlen vcap orig, 0, false⟩,
               events := ev } := by
  have hc' : (s.ctrls.set c ⟨.sharedV reg vlen vcap orig, 0, true⟩)[c]? =
      some ⟨.sharedV reg vlen vcap orig, 0, true⟩ := lookup_set_eq _ hc
  simp only [releaseCtrl, bind_apply, getCtrl_eq hc rfl, Nat.one_ne_zero, if_false, ne_eq,
    not_true_eq_false, setCtrl_apply]
  cases reg with
  | none =>
    simp only [ctrlBufOK] at hb
    subst hb
    simp only [bind_apply, vecFree_none]
    rw [freeCtrl_eq (c := c) (e := ⟨.sharedV none vlen 0 orig, 0, true⟩) hc' rfl]
    simp only [freeBuf, List.set_set]
    exact ⟨_, by simp [allocCount, List.countP_cons, isAlloc], rfl⟩
  | some r =>
    simp only [ctrlBufOK] at hb
    have h0 : vcap ≠ 0 := by rw [← hb.2]; exact heap_size_pos hR hb.1
    obtain ⟨rg, hr, hlive, hsz, hfree⟩ :=
      vecFree_some (s := { s with ctrls := s.ctrls.set c ⟨.sharedV (some r) vlen vcap orig, 0, true⟩ })
        hb.1 hb.2 h0
    simp only at hr
    simp only [bind_apply, hfree]
    rw [freeCtrl_eq (c := c) (e := ⟨.sharedV (some r) vlen vcap orig, 0, true⟩) hc' rfl]
    have hfb : freeBuf s.regions (.sharedV (some r) vlen vcap orig) = s.regions.set r rg.kill := by
      simp [freeBuf, hr]
    simp only [hfb, List.set_set]
    exact ⟨_, by simp [allocCount, List.countP_cons, isAlloc], rfl⟩

/-- freeing the vector of a block does not change the size of any region -/
theorem bufSizeL_freeBuf_sharedV (R : List Region) (reg : Option Nat) (vlen vcap orig : Nat) (x : Option Nat) :
    bufSizeL (freeBuf R (.sharedV reg vlen vcap orig)) x = bufSizeL R x := by
  cases reg with
  | none => rfl
  | some r0 =>
    simp only [freeBuf]
    cases hr : R[r0]? with
    | none => rfl
    | some rg =>
      cases x with
      | none => rfl
      | some x =>
        simp only [bufSizeL]
        by_cases hx : x = r0
        · subst hx
          simp [regionSizeL_def, hr, lookup_set_eq _ hr, Region.kill]
        · exact regionSizeL_set_ne _ (Ne.symm hx)

theorem rstep_dropPinned (r : Rec) : Recycle.step r .dropPinned = { r with pinned := r.pinned.dropLast } := rfl

/-- **`Op.drop j` of the last handle on the oldest pinned allocation refines `Recycle.Op.dropPinned`
and preserves `RecViewP`**: `j` holds the only reference (`rc = 1`) to a live `Shared` block `c'` of
bytes_mut.rs that is not the main handle's, and no older block is pinned.  The block and its vector
are freed; the main handle is untouched; the oldest entry leaves the pinned list. -/
theorem step_dropPinned_refinesP (cfg : Cfg) (e : Env) {s s' : St} (hw : WFx s) {i j c' : Nat} {v : Val}
    {h hj : Handle} (hi : s.hs[i]? = some (some h)) (r : Rec) (hv : RecViewP s h r)
    (hjl : s.hs[j]? = some (some hj)) (hjc : ctrlOf hj = some c') (hne : arcOf h ≠ some c')
    {vreg : Option Nat} {vlen vcap vorig : Nat}
    (he : s.ctrls[c']? = some ⟨.sharedV vreg vlen vcap vorig, 1, true⟩)
    (hold : ∀ (c'' : Nat) (e'' : CtrlE), c'' < c' → s.ctrls[c'']? = some e'' → some c'' ≠ arcOf h →
      ctrlPinned e'' = none)
    (hok : step cfg e (.drop j) s = .ok v s') :
    s'.hs[i]? = some (some h) ∧ RecViewP s' h (Recycle.step r .dropPinned) ∧
      allocCount s'.events + r.allocs = allocCount s.events + (Recycle.step r .dropPinned).allocs := by
  have hI := hw.inv
  obtain ⟨hv1, hpin, hnew⟩ := hv
  obtain ⟨arc, reg, off, len, cap, orig, rfl⟩ := RecView.is_mut hv1
  have hij : j ≠ i := by
    rintro rfl
    rw [hi] at hjl
    obtain rfl := Option.some.inj (Option.some.inj hjl)
    cases arc with
    | none => simp [ctrlOf] at hjc
    | some c => simp only [ctrlOf, Option.some.injEq] at hjc; exact hne (by simp [arcOf, hjc])
  obtain ⟨_, _, hbuf⟩ := hI.cok c' _ he rfl
  simp only at hbuf
  obtain ⟨ev, hev, hrel⟩ := releaseCtrl_last_sharedV (s := { s with hs := s.hs.set j none }) he hbuf hI.regs
  have hok' : opDrop j s = .ok v s' := hok
  rw [opDrop_ctrl hjl hjc, hrel] at hok'
  simp only at hok'
  obtain ⟨_, rfl⟩ := R.ok.inj hok'
  have hi' : (s.hs.set j none)[i]? = some (some (.mut arc reg off len cap orig)) := by
    rw [lookup_set_ne _ hij]; exact hi
  refine ⟨hi', ⟨?_, ?_, ?_⟩, by rw [rstep_dropPinned]; exact congrArg (· + r.allocs) hev⟩
  · -- the main handle is untouched
    rw [rstep_dropPinned]
    cases arc with
    | none =>
      obtain ⟨ra, ro, rl, rcp, rorig, rA, rp⟩ := RecView_vec.mp hv1
      exact ⟨ra, ro, rl, rcp, rorig, by rw [bufSizeL_freeBuf_sharedV]; exact rA, rp⟩
    | some c =>
      have hcc : c' ≠ c := fun h => hne (by simp [arcOf, h])
      obtain ⟨vreg0, vlen0, vcap0, vorig0, rc0, he0, ra, ro, rl, rcp, rorig, rA, rp⟩ := RecView_arc.mp hv1
      exact ⟨vreg0, vlen0, vcap0, vorig0, rc0, by rw [lookup_set_ne _ hcc]; exact he0, ra, ro, rl, rcp,
        rorig, rA, rp⟩
  · -- the oldest entry leaves the pinned list
    rw [rstep_dropPinned]
    show r.pinned.dropLast = pinnedL (s.ctrls.set c' ⟨.sharedV vreg vlen vcap vorig, 0, false⟩) arc
    have := sharedSizes_kill arc (e := ⟨.sharedV vreg vlen vcap vorig, 1, true⟩)
      (e' := ⟨.sharedV vreg vlen vcap vorig, 0, false⟩) (v := vcap) rfl rfl s.ctrls 0 c' he
      (by rw [Nat.zero_add]; exact fun h => hne h.symm)
      (fun c'' e'' hlt hc'' hn => hold c'' e'' hlt hc'' (by rw [Nat.zero_add] at hn; exact hn))
    rw [hpin]
    unfold pinnedL
    show (sharedSizes arc s.ctrls 0).reverse.dropLast = _
    rw [this, List.reverse_cons, List.dropLast_concat]
  · -- the main handle's block is still the newest
    intro c hc c'' e'' hlt hc''
    by_cases hcc : c'' = c'
    · subst hcc
      rw [lookup_set_eq _ he] at hc''
      obtain rfl := Option.some.inj hc''
      rfl
    · rw [lookup_set_ne _ (Ne.symm hcc)] at hc''
      exact hnew c hc c'' e'' hlt hc''

/-! ### non-vacuity -/

namespace Example

/-- `BytesMut::with_capacity` on a state without `Shared` blocks gives a `RecViewP`-related handle -/
example : RecViewP s1 (.mut none (some 0) 0 0 8 0) (Recycle.init 8) :=
  ⟨⟨rfl, rfl, rfl, rfl, by decide, rfl, rfl⟩, rfl, fun c hc => by cases hc⟩

/-- in `s3` (main handle on block 0 with one part) nothing is pinned -/
theorem viewP3 : RecViewP s3 (.mut (some 0) (some 0) 2 2 6 0) r3 :=
  ⟨view3, rfl, fun c hc c' e hlt hc' => by
    obtain rfl : (0 : Nat) = c := Option.some.inj hc
    have : s3.ctrls[c']? = none := by
      show ([⟨.sharedV (some 0) 4 8 0, 2, true⟩] : List CtrlE)[c']? = none
      rw [List.getElem?_eq_none]; simp; omega
    rw [this] at hc'; cases hc'⟩

/-- … `reserve(10)` takes the shared branch: the 8-byte allocation is pinned (by the part in slot 1) … -/
example : ∃ s', step cfg0 env0 (.reserve 0 10) s3 = .ok .unit s' ∧
    ∃ h', s'.hs[0]? = some (some h') ∧ RecViewP s' h' (Recycle.reserve r3 10) ∧
      (Recycle.reserve r3 10).pinned = [8] := by
  refine ⟨_, rfl, ?_⟩
  obtain ⟨hp, h', h1, h2, _⟩ := step_reserve_shared_refinesP cfg0 env0 wfx3 (i := 0) (k := 10) rfl r3 viewP3
    (by decide) (by decide) (v := .unit) rfl
  exact ⟨h', h1, h2, hp⟩

/-- … and dropping that part (`dropPinned`) frees it: the pinned list is empty again -/
example : ∃ s4 s5, step cfg0 env0 (.reserve 0 10) s3 = .ok .unit s4 ∧
    step cfg0 env0 (.drop 1) s4 = .ok .unit s5 ∧
    RecViewP s5 (.mut none (some 1) 0 2 12 0) (Recycle.step (Recycle.reserve r3 10) .dropPinned) ∧
    (Recycle.step (Recycle.reserve r3 10) .dropPinned).pinned = [] ∧
    s5.regions[0]? = some ⟨8, [some 1, some 2, some 3, some 4, none, none, none, none], false, .heap false⟩ := by
  refine ⟨_, _, rfl, rfl, ?_, by decide, rfl⟩
  have hw4 : WFx (setH s4 0 (.mut none (some 1) 0 2 12 0)) :=
    WFx_step (cfg := cfg0) (e := env0) wfx3 (op := .reserve 0 10) (v := .unit) rfl trivial
  obtain ⟨_, h', h1, h2, _⟩ := step_reserve_shared_refinesP cfg0 env0 wfx3 (i := 0) (k := 10) rfl r3 viewP3
    (by decide) (by decide) (v := .unit) (s' := setH s4 0 (.mut none (some 1) 0 2 12 0)) rfl
  obtain rfl : Handle.mut none (some 1) 0 2 12 0 = h' := Option.some.inj (Option.some.inj h1)
  exact (step_dropPinned_refinesP cfg0 env0 hw4 (i := 0) (j := 1) (c' := 0) rfl _ h2 rfl rfl (by decide)
    (vreg := some 0) (vlen := 4) (vcap := 8) (vorig := 0) rfl (fun c'' e'' h => by omega)
    (v := .unit) rfl).2.1

end Example

end C18Refine
end BytesVerif.Core
