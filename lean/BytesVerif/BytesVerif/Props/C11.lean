/-
C11 — every `BufMut` in the crate appends exactly the encoded bytes, within bounds; and the
write side of C12 (Limit, Chain as BufMut, Writer).  Property theorems only; helper lemmas are in
Lemmas/BufMut.lean.  Statements quantify over every target tree (any nesting), every `Env`
(growth decisions of `Vec::reserve` / `BytesMut::reserve`), every source and value.
-/
import BytesVerif.Lemmas.BufMut
namespace BytesVerif.BufMut
open BytesVerif.Buf BytesVerif.Codec BytesVerif.PutCodec

/-- `put_slice` appends exactly `src` at the write cursor, in order, and nothing else; the room
shrinks by exactly the number of bytes written.  (`ordM t`: the state respects write order, i.e.
in every `chain a b` the part `b` is untouched while `a` has room; without it `written` of a
chain is not in write order, see the counterexamples in Lemmas/BufMut.lean.) -/
theorem putSlice_ok (e : Env) (he : e.ok) (t : MutT) (src : Bs) (h : wfM t) (ho : ordM t)
    (hf : fits t src.length) (hl : noHardLimit t (src.length + 64)) (hw : src.length < W) :
    ∃ t', putSlice e t src = .ok t' ∧ written t' = written t ++ src ∧ wfM t' ∧
      roomOpt t' = (roomOpt t).map (· - src.length) := by
  obtain ⟨t', h1, h2, h3, h4, _⟩ := putSlice_ok_aux e he t src ⟨h, hf, hl⟩ hw
  exact ⟨t', h1, (h4 ho).1, h2, h3⟩

/-- A write that does not fit panics. -/
theorem putSlice_panic (e : Env) (t : MutT) (src : Bs) (h : wfM t) (hn : remainingMut t < src.length) :
    putSlice e t src = .panic := by
  have _ := h  -- holds without `wfM`
  exact putSlice_panic_aux e t src hn

/-- For fixed-size targets `remaining_mut()` is exactly the room (`hl`: a growable target under a
`limit` is not within `r` bytes of its hard limit; otherwise `remaining_mut()` is smaller). -/
theorem remainingMut_fixed (t : MutT) (h : wfM t) (r : Nat) (hr : roomOpt t = some r) (hW : r < W)
    (hl : noHardLimit t r) : remainingMut t = r := by
  have := (rem_room t r h hl).2 r hr
  omega

/-- `chunk_mut()` is empty only when `remaining_mut()` is 0, never longer than it, and writes
nothing. -/
theorem chunkMut_spec (e : Env) (he : e.ok) (t : MutT) (h : wfM t) (hl : noHardLimit t 64) :
    ((chunkMut e t).1 = 0 ↔ remainingMut t = 0) ∧ (chunkMut e t).1 ≤ remainingMut t ∧
      written (chunkMut e t).2 = written t ∧ roomOpt (chunkMut e t).2 = roomOpt t ∧ wfM (chunkMut e t).2 := by
  have hlen := chunkMut_len e he t h hl
  exact ⟨hlen.1, hlen.2, written_chunkMut e t, roomOpt_chunkMut e t, wfM_chunkMut e he t h hl⟩

/-- `put_bytes(val, cnt)` appends `cnt` copies of `val`. -/
theorem putBytes_ok (e : Env) (he : e.ok) (t : MutT) (val cnt : Nat) (h : wfM t) (ho : ordM t)
    (hf : fits t cnt) (hl : noHardLimit t (cnt + 64)) (hw : cnt < W) :
    ∃ t', putBytes e t val cnt = .ok t' ∧ written t' = written t ++ List.replicate cnt val ∧ wfM t' := by
  have hlen : (List.replicate cnt val).length = cnt := List.length_replicate
  obtain ⟨t', h1, h2, h3, _⟩ := putSlice_ok e he t (List.replicate cnt val) h ho
    (by rw [hlen]; exact hf) (by rw [hlen]; exact hl) (by rw [hlen]; exact hw)
  exact ⟨t', h1, h2, h3⟩

/-- `put(src: impl Buf)` appends exactly the source's byte sequence and drains the source. -/
theorem putBuf_ok (e : Env) (he : e.ok) (t : MutT) (src : BufT) (h : wfM t) (ho : ordM t) (hs : wf src)
    (hf : fits t (remaining src)) (hl : noHardLimit t (remaining src + 64)) :
    ∃ t' src', putBuf e t src = .ok (t', src') ∧ written t' = written t ++ den src ∧ den src' = [] ∧ wfM t' := by
  have hi : Inv t (remaining src) := ⟨h, hf, hl⟩
  have hrem : ¬ remainingMut t < remaining src := Nat.not_lt.mpr (hi.rem_ge (remaining_lt_W src hs))
  have hgrow := putBufGrowLoop_ok e he (remaining src + 1) t src (by omega) hs hi
  have hdef := putBufLoop_ok e he (remaining src + 1) t src (by omega) hs hi
  cases t with
  | grow k pre w spare =>
    obtain ⟨t', src', h1, h2, h3, h4⟩ := hgrow
    exact ⟨t', src', by simp only [putBuf, hrem, ↓reduceIte, h1], (h4 ho).1, h3, h2⟩
  | _ =>
    obtain ⟨t', src', h1, h2, h3, h4⟩ := hdef
    exact ⟨t', src', by simp only [putBuf, hrem, ↓reduceIte, h1], (h4 ho).1, h3, h2⟩

theorem putBuf_panic (e : Env) (t : MutT) (src : BufT) (hn : remainingMut t < remaining src) :
    putBuf e t src = .panic := by
  cases t <;> simp only [putBuf, hn, ↓reduceIte]

/-- Every typed `put_X` whose row is accepted by the decision procedure appends exactly the
byte-order encoding of the value chosen from the method name. -/
theorem put_ok (e : Env) (he : e.ok) (r : PutRow) (hr : putRowOK r = true) (v : Int) (nbytes : Nat)
    (hn : nbytes ≤ 8) (t : MutT) (h : wfM t) (ho : ordM t)
    (hf : fits t (r.spec.size nbytes)) (hl : noHardLimit t (r.spec.size nbytes + 64)) :
    ∃ t', evalPut e r.body v nbytes t = .ok t' ∧ written t' = written t ++ encode r.spec v nbytes ∧ wfM t' := by
  have hb := bodyBytes_eq_encode r hr v nbytes hn
  have hlen := encode_length' r.spec v nbytes
  have h16 := size_le_16 r hr nbytes hn
  obtain ⟨t', h1, h2, h3, _⟩ := putSlice_ok e he t (encode r.spec v nbytes) h ho
    (by rw [hlen]; exact hf) (by rw [hlen]; exact hl) (by rw [hlen, W_eq]; omega)
  exact ⟨t', by simp only [evalPut, hb, h1], h2, h3⟩

/-- `nbytes > 8` panics. -/
theorem put_too_wide (e : Env) (r : PutRow) (hr : putRowOK r = true) (v : Int) (nbytes : Nat)
    (hk : r.spec.kind = .varUint ∨ r.spec.kind = .varInt) (hn : 8 < nbytes) (t : MutT) :
    evalPut e r.body v nbytes t = .panic := by
  simp only [evalPut, bodyBytes_too_wide r hr v nbytes hk hn]

/-- `encode` produces `size` bytes, each `< 256`. -/
theorem encode_length (s : Spec) (v : Int) (nbytes : Nat) : (encode s v nbytes).length = s.size nbytes := by
  exact encode_length' s v nbytes

theorem encode_bytes (s : Spec) (v : Int) (nbytes : Nat) : ∀ x ∈ encode s v nbytes, x < 256 := by
  exact encode_bytes' s v nbytes

/-- Reading back with the matching `get_X` returns the value that was put: `decode ∘ encode = id`
on the value range of the method (including `nbytes` truncation for put_uint / put_int). -/
theorem decode_encode (s : Spec) (v : Int) (nbytes : Nat) (hn : nbytes ≤ 8)
    (hsz : match s.kind with | .int n _ => 0 < n | .float n => 0 < n | _ => True)
    (hv : inRange s v nbytes) :
    decode s (encode s v nbytes) = v := by
  have _ := hn; have _ := hsz  -- not needed: `inRange` alone suffices
  exact decode_encode' s v nbytes hv

/-! ### C12, write side -/

/-- `limit(n)` accepts at most `n` bytes. -/
theorem limit_room (i : MutT) (n : Nat) : remainingMut (.limit i n) = min (remainingMut i) n := rfl

/-- After writing `src` through `Limit`, the limit dropped by exactly `src.length` and the inner
target received exactly `src`. -/
theorem limit_putSlice_inner (e : Env) (he : e.ok) (i : MutT) (lim : Nat) (src : Bs) (h : wfM (.limit i lim))
    (ho : ordM i)
    (hf : fits (.limit i lim) src.length) (hl : noHardLimit i (src.length + 64)) (hw : src.length < W) :
    ∃ i', putSlice e (.limit i lim) src = .ok (.limit i' (lim - src.length)) ∧
      written i' = written i ++ src ∧ wfM i' := by
  obtain ⟨t', h1, h2, h3, _⟩ := putSlice_ok e he (.limit i lim) src h ho hf hl hw
  have hshape : ∃ i', t' = .limit i' (lim - src.length) := by
    rw [putSlice_limit, putSliceDefault] at h1
    split at h1
    · cases h1
    · exact putLoop_limit_shape e _ i lim src t' h1
  obtain ⟨i', rfl⟩ := hshape
  exact ⟨i', h1, h2, h3.1⟩

/-- `chain(a, b)` as a `BufMut` fills all of `a` and then `b`. -/
theorem chain_putSlice_inner (e : Env) (he : e.ok) (a b : MutT) (ra : Nat) (src : Bs) (h : wfM (.chain a b))
    (hoa : ordM a) (hob : ordM b)
    (hra : roomOpt a = some ra) (hf : fits (.chain a b) src.length)
    (hl : noHardLimit (.chain a b) (src.length + 64)) (hw : src.length < W) :
    ∃ a' b', putSlice e (.chain a b) src = .ok (.chain a' b') ∧
      written a' = written a ++ src.take ra ∧ written b' = written b ++ src.drop ra ∧ wfM a' ∧ wfM b' := by
  have hi : Inv (.chain a b) src.length := ⟨h, hf, hl⟩
  have hrem := hi.rem_ge hw
  obtain ⟨a', b', h1, h2, h3⟩ :=
    putLoop_chain e he (src.length + 1) a b ra src (by omega) hi hw hra hoa hob
  obtain ⟨t', g1, g2, _⟩ := putLoop_ok e he (src.length + 1) (.chain a b) src (by omega) hi hw
  rw [h1] at g1; cases g1
  refine ⟨a', b', ?_, h2, h3, g2.1, g2.2⟩
  rw [putSlice_chain, putSliceDefault, if_neg (by omega), h1]

/-- `Writer::write` transfers `min(remaining_mut, requested)` bytes and never fails. -/
theorem writerWrite_spec (e : Env) (he : e.ok) (t : MutT) (src : Bs) (h : wfM t) (ho : ordM t)
    (hl : noHardLimit t (src.length + 64)) (hw : src.length < W) (hr : ∀ r, roomOpt t = some r → r < W) :
    ∃ t', writerWrite e t src = .ok (min (remainingMut t) src.length, t') ∧
      written t' = written t ++ src.take (min (remainingMut t) src.length) ∧ wfM t' := by
  have _ := hr  -- not needed
  have hrr := rem_room t (src.length + 64) h hl
  simp only [writerWrite]
  have hnl : min (remainingMut t) src.length ≤ src.length := Nat.min_le_right _ _
  have hnr : min (remainingMut t) src.length ≤ remainingMut t := Nat.min_le_left _ _
  generalize min (remainingMut t) src.length = n at hnl hnr ⊢
  have hlen : (src.take n).length = n := by rw [List.length_take]; omega
  have hfit : fits t n := by
    unfold fits
    cases hro : roomOpt t with
    | none => trivial
    | some r => have := (hrr.2 r hro).1; simp only; omega
  obtain ⟨t', h1, h2, h3, _⟩ := putSlice_ok e he t (src.take n) h ho
    (by rw [hlen]; exact hfit) (by rw [hlen]; exact noHardLimit_mono (by omega) hl)
    (by rw [hlen]; omega)
  exact ⟨t', by rw [h1]; rfl, h2, h3⟩

-- Non-vacuity: a nested target with a write straddling the chain boundary and a limit.
def sampleTarget : MutT := .limit (.chain (.fixed .slice [] 2) (.box (.grow .vec [9] [] 0))) 5
example : wfM sampleTarget := by simp [sampleTarget, wfM, growLen, isizeMax, W_eq]
example : (putSlice defaultEnv sampleTarget [1, 2, 3]).map written = .ok [1, 2, 3] := by decide
example : putSlice defaultEnv sampleTarget [1, 2, 3, 4, 5, 6] = .panic := by decide
example : encode ⟨false, .int 2 true, .le⟩ (-2) 0 = [254, 255] := by decide
example : decode ⟨false, .varInt, .be⟩ (encode ⟨false, .varInt, .be⟩ (-129) 2) = -129 := by decide

end BytesVerif.BufMut
