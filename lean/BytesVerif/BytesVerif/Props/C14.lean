/-
C14 — equality, ordering and hashing depend on the bytes only, in both operand orders.
Property theorems only.  The rows come from Generated/CmpImpls.lean; the per-run certificate
(Cert/C14.lean) shows `rowOK` for every regenerated row.
-/
import BytesVerif.Model.Cmp
namespace BytesVerif.Cmp

theorem lexCmp_swap (x y : Bs) : lexCmp y x = (lexCmp x y).swap := by
  induction x generalizing y with
  | nil => cases y <;> simp [lexCmp, Ordering.swap]
  | cons a as ih =>
    cases y with
    | nil => simp [lexCmp, Ordering.swap]
    | cons b bs =>
      simp only [lexCmp]
      by_cases h1 : a < b
      · have h2 : ¬ b < a := by omega
        simp [h1, h2, Ordering.swap]
      · by_cases h2 : b < a
        · simp [h1, h2, Ordering.swap]
        · simp [h1, h2, ih]

theorem lexCmp_eq_iff (x y : Bs) : lexCmp x y = .eq ↔ x = y := by
  induction x generalizing y with
  | nil => cases y <;> simp [lexCmp]
  | cons a as ih =>
    cases y with
    | nil => simp [lexCmp]
    | cons b bs =>
      simp only [lexCmp]
      by_cases h1 : a < b
      · simp [h1]; omega
      · by_cases h2 : b < a
        · simp [h1, h2]; omega
        · have : a = b := by omega
          simp [ih, this]

/-- `lexCmp x y = .lt` is the textbook lexicographic order: a common prefix, then either `x` ends
or the next byte of `x` is smaller. -/
theorem lexCmp_lt_iff (x y : Bs) :
    lexCmp x y = .lt ↔
      ∃ p, (∃ b t, x = p ∧ y = p ++ b :: t) ∨ (∃ a b s t, x = p ++ a :: s ∧ y = p ++ b :: t ∧ a < b) := by
  induction x generalizing y with
  | nil =>
    cases y with
    | nil => simp [lexCmp]
    | cons b bs => simp [lexCmp]
  | cons a as ih =>
    cases y with
    | nil =>
      simp only [lexCmp]
      constructor
      · intro h; cases h
      · rintro ⟨p, h | h⟩
        · obtain ⟨b, t, h1, h2⟩ := h
          cases p <;> simp at h2
        · obtain ⟨a', b, s, t, h1, h2, _⟩ := h
          cases p <;> simp at h2
    | cons b bs =>
      simp only [lexCmp]
      by_cases h1 : a < b
      · simp only [h1, if_true, true_iff]
        exact ⟨[], Or.inr ⟨a, b, as, bs, by simp, by simp, h1⟩⟩
      · by_cases h2 : b < a
        · simp only [h1, h2, if_false, if_true]
          constructor
          · intro h; cases h
          · rintro ⟨p, h | h⟩
            · obtain ⟨b', t, hx, hy⟩ := h
              subst hx
              simp at hy
              omega
            · obtain ⟨a', b', s, t, hx, hy, hlt⟩ := h
              cases p with
              | nil => simp at hx hy; omega
              | cons c p => simp at hx hy; omega
        · have hab : a = b := by omega
          subst hab
          simp only [h1, if_false, ih]
          constructor
          · rintro ⟨p, h | h⟩
            · obtain ⟨b', t, hx, hy⟩ := h
              exact ⟨a :: p, Or.inl ⟨b', t, by simp [hx], by simp [hy]⟩⟩
            · obtain ⟨a', b', s, t, hx, hy, hlt⟩ := h
              exact ⟨a :: p, Or.inr ⟨a', b', s, t, by simp [hx], by simp [hy], hlt⟩⟩
          · rintro ⟨p, h | h⟩
            · obtain ⟨b', t, hx, hy⟩ := h
              cases p with
              | nil => simp at hx
              | cons c p =>
                simp at hx hy
                exact ⟨p, Or.inl ⟨b', t, hx.2, hy.2⟩⟩
            · obtain ⟨a', b', s, t, hx, hy, hlt⟩ := h
              cases p with
              | nil => simp at hx hy; omega
              | cons c p =>
                simp at hx hy
                exact ⟨p, Or.inr ⟨a', b', s, t, hx.2, hy.2, hlt⟩⟩

/-- Soundness of the decision procedure, for every possible row: an OK row computes the slice
operator on the byte views of (`self`, `other`), for all byte strings. -/
theorem rowOK_sound (r : Row) (h : rowOK r = true) (x y : Bs) :
    eval r x y = some (spec r.trait x y) := by
  obtain ⟨impl, t, body⟩ := r
  cases body with
  | unknown s => simp [rowOK] at h
  | call op l rr =>
    cases l <;> cases rr <;> cases op <;> cases t <;>
      simp_all [rowOK, eval, spec, pick, applyOp]
    exact Bool.beq_comm

/-- Completeness: a row that is not OK differs from the specification on the concrete pair
`witness` (the failing input used for the replay on the real code). -/
theorem rowOK_complete (r : Row) (h : rowOK r = false) :
    eval r witness.1 witness.2 ≠ some (spec r.trait witness.1 witness.2) := by
  obtain ⟨impl, t, body⟩ := r
  cases body with
  | unknown s => simp [eval]
  | call op l rr =>
    cases l <;> cases rr <;> cases op <;> cases t <;>
      simp_all [rowOK, eval, spec, pick, applyOp, witness, lexCmp]

/-- `a < b` exactly when `b > a`, for every pair of OK rows implementing the two operand orders
(any two impls, e.g. `PartialOrd<BytesMut> for Vec<u8>` and `PartialOrd<Vec<u8>> for BytesMut`). -/
theorem antisym (r₁ r₂ : Row) (h₁ : rowOK r₁ = true) (h₂ : rowOK r₂ = true)
    (t₁ : r₁.trait = .partialCmp) (t₂ : r₂.trait = .partialCmp) (x y : Bs) :
    eval r₁ x y = some (.pord (some .lt)) ↔ eval r₂ y x = some (.pord (some .gt)) := by
  rw [rowOK_sound r₁ h₁, rowOK_sound r₂ h₂, t₁, t₂]
  simp only [spec, applyOp, Option.some.injEq, Val.pord.injEq]
  rw [lexCmp_swap x y]
  cases lexCmp x y <;> simp [Ordering.swap]

/-- Equality rows agree with `partial_cmp = Equal` (consistency of `==` with the order). -/
theorem eq_iff_cmp_eq (x y : Bs) : spec .eq x y = .bool true ↔ spec .cmp x y = .ord .eq := by
  simp [spec, applyOp, lexCmp_eq_iff]

/-- An OK hash row feeds exactly the byte view to the hasher, so equal contents hash equally and
the hash equals that of the borrowed `[u8]`. -/
theorem hashRow_sound (r : HashRow) (h : hashRowOK r = true) (x : Bs) : hashFeed r x = some x := by
  unfold hashRowOK at h
  unfold hashFeed
  cases hb : r.body <;> simp_all

-- Non-vacuity: concrete OK and not-OK rows, and the failing input for the not-OK one.
example : rowOK ⟨"PartialOrd<Vec<u8>> for BytesMut", .partialCmp, .call .partialCmp .self .other⟩ = true := by decide
example : rowOK ⟨"PartialOrd<BytesMut> for Vec<u8>", .partialCmp, .call .partialCmp .other .self⟩ = false := by decide
example : eval ⟨"PartialOrd<BytesMut> for Vec<u8>", .partialCmp, .call .partialCmp .other .self⟩ [0] [1]
    = some (.pord (some .gt)) := by decide
example : spec .partialCmp [0] [1] = .pord (some .lt) := by decide

end BytesVerif.Cmp
