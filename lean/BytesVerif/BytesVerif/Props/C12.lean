/-
C12 (read side) — Take, Chain and Reader bound and order exactly as documented, and after any
use the inner buffers are advanced by exactly the number of bytes that went through.
The inner buffers `i`, `a`, `b` are arbitrary trees, so the statements hold for arbitrarily
nested adapters.  (Write side — Limit, Chain as BufMut, Writer — is in Props/C11.lean.)
-/
import BytesVerif.Props.C09
namespace BytesVerif.Buf

/-- `take(n)` exposes exactly the first `min(n, remaining)` bytes of its inner buffer. -/
theorem take_den (i : BufT) (n : Nat) (h : wf i) :
    den (.take i n) = (den i).take (min n (remaining i)) := by
  exact take_den' i n h

/-- `chain(a, b)` reads all of `a` and then `b`. -/
theorem chain_den (a b : BufT) : den (.chain a b) = den a ++ den b := rfl

/-- Consuming `n` bytes through `Take` (by any consuming operation) leaves a `Take` whose limit
dropped by `n` and whose inner buffer advanced by exactly `n`. -/
theorem take_advance_inner (i : BufT) (lim n : Nat) (h : wf (.take i lim)) (hn : n ≤ remaining (.take i lim)) :
    ∃ i', advance (.take i lim) n = .ok (.take i' (lim - n)) ∧ den i' = (den i).drop n ∧ wf i' := by
  exact take_advance_inner' i lim n h hn

theorem take_copyToSlice_inner (i : BufT) (lim n : Nat) (h : wf (.take i lim)) (hn : n ≤ remaining (.take i lim)) :
    ∃ i', copyToSlice (.take i lim) n = .ok ((den i).take n, .take i' (lim - n)) ∧ den i' = (den i).drop n ∧ wf i' := by
  exact take_copyToSlice_inner' i lim n h hn

theorem take_copyToBytes_inner (i : BufT) (lim n : Nat) (h : wf (.take i lim)) (hn : n ≤ remaining (.take i lim)) :
    ∃ i', copyToBytes (.take i lim) n = .ok ((den i).take n, .take i' (lim - n)) ∧ den i' = (den i).drop n ∧ wf i' := by
  exact take_copyToBytes_inner' i lim n h hn

/-- Consuming `n` bytes through `Chain` advances `a` by `min n |a|` and `b` by the rest. -/
theorem chain_advance_inner (a b : BufT) (n : Nat) (h : wf (.chain a b)) (hn : n ≤ remaining (.chain a b)) :
    ∃ a' b', advance (.chain a b) n = .ok (.chain a' b') ∧
      den a' = (den a).drop n ∧ den b' = (den b).drop (n - (den a).length) ∧ wf a' ∧ wf b' := by
  exact advance_chain_inner a b n h hn

theorem chain_copyToSlice_inner (a b : BufT) (n : Nat) (h : wf (.chain a b)) (hn : n ≤ remaining (.chain a b)) :
    ∃ a' b', copyToSlice (.chain a b) n = .ok ((den a ++ den b).take n, .chain a' b') ∧
      den a' = (den a).drop n ∧ den b' = (den b).drop (n - (den a).length) ∧ wf a' ∧ wf b' := by
  exact chain_copyToSlice_inner' a b n h hn

theorem chain_copyToBytes_inner (a b : BufT) (n : Nat) (h : wf (.chain a b)) (hn : n ≤ remaining (.chain a b)) :
    ∃ a' b', copyToBytes (.chain a b) n = .ok ((den a ++ den b).take n, .chain a' b') ∧
      den a' = (den a).drop n ∧ den b' = (den b).drop (n - (den a).length) ∧ wf a' ∧ wf b' := by
  exact chain_copyToBytes_inner' a b n h hn

/-- `Reader::read(dst)` transfers `min(available, requested)` bytes and never fails. -/
theorem readerRead_spec (b : BufT) (n : Nat) (h : wf b) :
    ∃ b', readerRead b n = .ok ((den b).take (min (remaining b) n), b') ∧
      den b' = (den b).drop (min (remaining b) n) ∧ wf b' := by
  exact copyToSlice_ok' b (min (remaining b) n) h (Nat.min_le_left _ _)

/-- `BufRead::fill_buf` shows a non-empty prefix while bytes remain; `consume` is `advance`. -/
theorem readerFillBuf_spec (b : BufT) (h : wf b) :
    readerFillBuf b <+: den b ∧ (readerFillBuf b = [] ↔ den b = []) := by
  exact readerFillBuf_spec' b h

end BytesVerif.Buf
