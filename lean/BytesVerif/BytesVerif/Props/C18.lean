/-
C18 — recycling a BytesMut keeps memory and allocations bounded over any history.
Theorems over the recycling model (Model/Recycle.lean), by induction over operation lists of any
length.  `M` bounds leftover + message at every refill, `A₀` is the initial capacity.
(The "in particular" clause of the property — a reserve on an empty handle that is alone on a large
enough buffer never allocates — is `reserve_whole_no_alloc` / `reclaim_whole` in Props/C08.lean.)
-/
import BytesVerif.Lemmas.Recycle
namespace BytesVerif.Recycle

/-- the bound on every allocation the buffer ever lives in -/
def B (A₀ M : Nat) : Nat := max A₀ (max (4 * M) 8)

/-- what the handle-level invariants of M1 give for the recycling view -/
structure RInv (r : Rec) : Prop where
  len_le : r.len ≤ r.cap
  in_alloc : r.off + r.cap ≤ r.A
  vec_exact : r.arc = false → r.off + r.cap = r.A

/-- an operation respects the refill bound: leftover + message ≤ M; consumption stays in range -/
def OpOKM (M : Nat) (r : Rec) : Op → Prop
  | .reserve k => r.len + k ≤ M
  | .append m => r.len + m ≤ M
  | .splitTo n => n ≤ r.len
  | .advance n => n ≤ r.len
  | .truncate n => n ≤ r.len
  | .dropPart => 0 < r.parts
  -- `r.arc = true`: a handle that shares its allocation with a part is KIND_ARC (needed since `unsplitLast`
  -- models `*self = other`: on a KIND_VEC record it would break `vec_exact`)
  | .unsplitLast n c => r.off + r.cap + c ≤ r.A ∧ n ≤ c ∧ r.len + n ≤ M ∧ 0 < r.parts ∧ r.arc = true
  | _ => True

/-- a history in which every operation respects the bound -/
def HistOK (M : Nat) : Rec → List Op → Prop
  | _, [] => True
  | r, op :: ops => OpOKM M r op ∧ HistOK M (step r op) ops


/-! ### step lemmas -/

theorem rinv_init (c : Nat) : RInv (init c) := ⟨Nat.zero_le _, by simp [init], fun _ => by simp [init]⟩

theorem rinv_step_aux (M : Nat) (r : Rec) (op : Op) (hi : RInv r) (ho : OpOKM M r op) : RInv (step r op) := by
  obtain ⟨h1, h2, h3⟩ := hi
  cases op with
  | reserve k =>
    obtain ⟨e, hc, hi', hv'⟩ := reserve_layout r k h1 h2 h3
    exact ⟨by show (reserve r k).len ≤ (reserve r k).cap; omega, hi', hv'⟩
  | append m =>
    obtain ⟨e, hc, hi', hv'⟩ := reserve_layout r m h1 h2 h3
    exact ⟨by show (reserve r m).len + m ≤ (reserve r m).cap; omega, hi', hv'⟩
  | splitTo n =>
    have hn : n ≤ r.len := ho
    simp only [step, if_neg (Nat.not_lt.mpr hn)]
    constructor <;> simp <;> omega
  | split => simp only [step]; constructor <;> simp <;> omega
  | advance n =>
    have hn : n ≤ r.len := ho
    simp only [step, if_neg (Nat.not_lt.mpr hn)]
    refine ⟨?_, ?_, ?_⟩ <;> simp only <;> (try intro ha; have := h3 ha) <;> omega
  | truncate n =>
    have hn : n ≤ r.len := ho
    simp only [step, if_pos hn]
    exact ⟨by show n ≤ r.cap; omega, h2, h3⟩
  | dropPart => exact ⟨h1, h2, h3⟩
  | dropPinned => exact ⟨h1, h2, h3⟩
  | dropOld => exact ⟨h1, h2, h3⟩
  | splitOffTail => simp only [step]; constructor <;> simp <;> omega
  | unsplitLast n c =>
    obtain ⟨ha, hnc, _, _, harc⟩ :
      r.off + r.cap + c ≤ r.A ∧ n ≤ c ∧ r.len + n ≤ M ∧ 0 < r.parts ∧ r.arc = true := ho
    rcases unsplitLast_cases r n c with ⟨h0, e⟩ | ⟨h0, hc, e⟩ | ⟨h0, hc, hf, e⟩ | ⟨h0, hc, hf, e⟩
    · rw [e]; refine ⟨?_, ?_, ?_⟩ <;> simp only [harc] <;> (try intro hx; cases hx) <;> omega
    · rw [e]; exact ⟨h1, h2, h3⟩
    · rw [e]; refine ⟨?_, ?_, ?_⟩ <;> simp only [harc] <;> (try intro hx; cases hx) <;> omega
    · rw [e]
      obtain ⟨el, hc', hi', hv'⟩ := reserve_layout r n h1 h2 h3
      exact ⟨by show (reserve r n).len + n ≤ (reserve r n).cap; omega, hi', hv'⟩
  | roundTrip =>
    simp only [step]
    split
    · refine ⟨?_, ?_, ?_⟩ <;> simp
    · split
      · exact ⟨h1, h2, h3⟩
      · rename_i hp ha
        have ha' : r.arc = true := by simpa using ha
        refine ⟨?_, ?_, ?_⟩ <;> simp [ha'] <;> omega

/-- the invariant behind `alloc_size_bounded`, for any bound `Bd ≥ max (4M) 8` -/
structure SInv (Bd : Nat) (r : Rec) : Prop where
  rinv : RInv r
  hA : r.A ≤ Bd
  hp : ∀ a ∈ r.pinned, a ≤ Bd
  ho : origCap r.orig ≤ Bd

theorem sinv_init (A₀ M : Nat) : SInv (B A₀ M) (init A₀) :=
  ⟨rinv_init A₀, by simp only [init, B]; omega, by simp [init],
   Nat.le_trans (origCap_origRepr_le A₀) (by simp only [B]; omega)⟩

theorem sinv_step (M Bd : Nat) (h4 : 4 * M ≤ Bd) (h8 : 8 ≤ Bd) (r : Rec) (op : Op) (hi : SInv Bd r)
    (hok : OpOKM M r op) : SInv Bd (step r op) := by
  suffices key : (step r op).A ≤ Bd ∧ (∀ a ∈ (step r op).pinned, a ≤ Bd) ∧
      origCap (step r op).orig ≤ Bd from
    ⟨rinv_step_aux M r op hi.rinv hok, key.1, key.2.1, key.2.2⟩
  obtain ⟨⟨h1, h2, h3⟩, hA, hp, ho⟩ := hi
  by_cases hf : op.refills = false
  · obtain ⟨eA, _, eo, hsub⟩ := step_frame r op hf
    rw [eA, eo]; exact ⟨hA, fun a ha => hp a (hsub a ha), ho⟩
  · cases op with
    | reserve k =>
      obtain ⟨a, b, c⟩ := reserve_bound r k M Bd h1 h2 h3 hok h4 h8 hA hp ho
      exact ⟨a, b, by show origCap (reserve r k).orig ≤ Bd; rw [c]; exact ho⟩
    | append m =>
      obtain ⟨a, b, c⟩ := reserve_bound r m M Bd h1 h2 h3 hok h4 h8 hA hp ho
      exact ⟨a, b, by show origCap (reserve r m).orig ≤ Bd; rw [c]; exact ho⟩
    | roundTrip =>
      have hmem : ∀ a ∈ r.A :: r.pinned, a ≤ Bd := by
        intro a ha
        have : a = r.A ∨ a ∈ r.pinned := by simpa using ha
        rcases this with rfl | hm
        · exact hA
        · exact hp a hm
      simp only [step]
      split
      · exact ⟨by show r.len ≤ Bd; omega, hmem,
          Nat.le_trans (origCap_origRepr_le r.len) (by omega)⟩
      · split
        · exact ⟨hA, hp, Nat.le_trans (origCap_origRepr_le r.A) hA⟩
        · exact ⟨hA, hp, ho⟩
    | unsplitLast n c =>
      have hk : r.len + n ≤ M := hok.2.2.1
      rcases unsplitLast_cases r n c with ⟨_, e⟩ | ⟨_, _, e⟩ | ⟨_, _, _, e⟩ | ⟨_, _, _, e⟩
      · rw [e]; exact ⟨hA, hp, ho⟩
      · rw [e]; exact ⟨hA, hp, ho⟩
      · rw [e]; exact ⟨hA, hp, ho⟩
      · rw [e]
        obtain ⟨a, b, c'⟩ := reserve_bound r n M Bd h1 h2 h3 hk h4 h8 hA hp ho
        exact ⟨a, b, by show origCap (reserve r n).orig ≤ Bd; rw [c']; exact ho⟩
    | _ => simp [Op.refills] at hf

theorem sinv_run (M Bd : Nat) (h4 : 4 * M ≤ Bd) (h8 : 8 ≤ Bd) (ops : List Op) :
    ∀ r, SInv Bd r → HistOK M r ops → SInv Bd (run r ops) := by
  induction ops with
  | nil => intro r hi _; exact hi
  | cons op ops ih =>
    intro r hi h
    exact ih (step r op) (sinv_step M Bd h4 h8 r op hi h.1) h.2

theorem sinv_hist (A₀ M : Nat) (ops : List Op) (h : HistOK M (init A₀) ops) :
    SInv (B A₀ M) (run (init A₀) ops) :=
  sinv_run M (B A₀ M) (by simp only [B]; omega) (by simp only [B]; omega) ops _ (sinv_init A₀ M) h

theorem sum_le_length_mul (l : List Nat) (b : Nat) (h : ∀ a ∈ l, a ≤ b) : l.sum ≤ l.length * b := by
  induction l with
  | nil => simp
  | cons x xs ih =>
    have hx : x ≤ b := h x (by simp)
    have hxs := ih (fun a ha => h a (by simp [ha]))
    simp only [List.sum_cons, List.length_cons, Nat.add_mul, Nat.one_mul]
    omega

/-- Every allocation the buffer ever lives in — the current one and every older one still pinned by
retained parts — is at most `max(A₀, 4M, 8)` bytes, after any history of any length, with any
retention policy. -/
theorem alloc_size_bounded (A₀ M : Nat) (ops : List Op) (h : HistOK M (init A₀) ops) :
    (run (init A₀) ops).A ≤ B A₀ M ∧ ∀ a ∈ (run (init A₀) ops).pinned, a ≤ B A₀ M :=
  ⟨(sinv_hist A₀ M ops h).hA, (sinv_hist A₀ M ops h).hp⟩

/-- Hence peak live byte-buffer memory is bounded by (number of retained allocations + 1) × bound,
independently of the number of rounds. -/
theorem live_bounded (A₀ M : Nat) (ops : List Op) (h : HistOK M (init A₀) ops) :
    live (run (init A₀) ops) ≤ ((run (init A₀) ops).pinned.length + 1) * B A₀ M := by
  obtain ⟨hA, hp⟩ := alloc_size_bounded A₀ M ops h
  have hs := sum_le_length_mul _ _ hp
  simp only [live, Nat.add_mul, Nat.one_mul]
  omega

/-- the refill of a round when every split-off part was dropped before it -/
def Refill (M : Nat) (r : Rec) (op : Op) : Prop :=
  r.parts = 0 ∧ ((∃ k, op = .reserve k ∧ r.len + k ≤ M) ∨ (∃ m, op = .append m ∧ r.len + m ≤ M))


/-- what a refill with no outstanding parts does to the allocation -/
theorem refill_step (M : Nat) (r : Rec) (op : Op) (hi : RInv r) (hr : Refill M r op) :
    (step r op).pinned = r.pinned ∧
    (((step r op).allocs = r.allocs ∧ (step r op).A = r.A) ∨
     ((step r op).allocs = r.allocs + 1 ∧ 2 * r.A ≤ (step r op).A ∧ 8 ≤ (step r op).A ∧
        r.A < 2 * M ∧ (step r op).A ≤ max (4 * M) 8)) := by
  obtain ⟨h1, h2, h3⟩ := hi
  obtain ⟨hp, ⟨k, rfl, hk⟩ | ⟨m, rfl, hm⟩⟩ := hr
  · exact reserve_refill r k M h1 h2 h3 hk hp
  · exact reserve_refill r m M h1 h2 h3 hm hp

/-- Once the allocation has reached `2M`, a refill with no outstanding parts never allocates: the
request either fits behind the contents or the contents are moved to the front. -/
theorem big_enough_no_alloc (M : Nat) (r : Rec) (op : Op) (hi : RInv r) (hbig : 2 * M ≤ r.A) (hr : Refill M r op) :
    (step r op).allocs = r.allocs ∧ (step r op).A = r.A ∧ (step r op).pinned = r.pinned := by
  obtain ⟨hp, ⟨ha, hA⟩ | ⟨_, _, _, hlt, _⟩⟩ := refill_step M r op hi hr
  · exact ⟨ha, hA, hp⟩
  · omega

/-- A refill with no outstanding parts that does allocate at least doubles the allocation (or
creates the first one of at least 8 bytes). -/
theorem alloc_doubles (M : Nat) (r : Rec) (op : Op) (hi : RInv r) (hr : Refill M r op)
    (ha : (step r op).allocs ≠ r.allocs) :
    (step r op).allocs = r.allocs + 1 ∧ 2 * r.A ≤ (step r op).A ∧ 8 ≤ (step r op).A ∧ r.A < 2 * M := by
  obtain ⟨_, ⟨ha', _⟩ | ⟨h1, h2, h3, h4, _⟩⟩ := refill_step M r op hi hr
  · exact absurd ha' ha
  · exact ⟨h1, h2, h3, h4⟩

/-- every refill in the history happens with all parts dropped (retention window 0); an `unsplit` is
not a refill as long as it does not fall back to `extend_from_slice` (which would copy — and possibly
reallocate — while the part is still alive) -/
def Recycled (M : Nat) : Rec → List Op → Prop
  | _, [] => True
  | r, op :: ops =>
    OpOKM M r op ∧ (match op with | .reserve _ | .append _ => r.parts = 0 | .roundTrip => r.parts = 0
                                  | .unsplitLast _ c => r.len = 0 ∨ c = 0 ∨ r.len = r.cap | _ => True) ∧
      Recycled M (step r op) ops


/-- the invariant behind `allocs_bounded`: after the first allocation every further one doubled the
buffer, starting from at least 8 bytes, and none happened at `2M` or above -/
structure AInv (M : Nat) (r : Rec) : Prop where
  rinv : RInv r
  pot : r.allocs ≤ 1 ∨ (2 ^ (r.allocs + 1) ≤ r.A ∧ r.A ≤ max (4 * M) 8)

theorem ainv_init (A₀ M : Nat) : AInv M (init A₀) :=
  ⟨rinv_init A₀, .inl (by simp only [init]; split <;> omega)⟩

theorem ainv_refill (M : Nat) (r : Rec) (op : Op) (hi : AInv M r) (hr : Refill M r op) :
    (step r op).allocs ≤ 1 ∨ (2 ^ ((step r op).allocs + 1) ≤ (step r op).A ∧ (step r op).A ≤ max (4 * M) 8) := by
  obtain ⟨hri, hpot⟩ := hi
  obtain ⟨_, ⟨ha, hA⟩ | ⟨ha, h2, h8, _, hle⟩⟩ := refill_step M r op hri hr
  · rw [ha, hA]; exact hpot
  · rw [ha]
    rcases hpot with h | ⟨hp, _⟩
    · by_cases h0 : r.allocs = 0
      · left; omega
      · right
        have : r.allocs = 1 := by omega
        rw [this]; exact ⟨by simpa using h8, hle⟩
    · right
      refine ⟨?_, hle⟩
      have : 2 ^ (r.allocs + 1 + 1) = 2 * 2 ^ (r.allocs + 1) := by rw [Nat.pow_succ]; omega
      omega

theorem ainv_step (M : Nat) (r : Rec) (op : Op) (hi : AInv M r)
    (hparts : match op with | .reserve _ | .append _ => r.parts = 0 | .roundTrip => r.parts = 0
                            | .unsplitLast _ c => r.len = 0 ∨ c = 0 ∨ r.len = r.cap | _ => True)
    (hok : OpOKM M r op) : AInv M (step r op) := by
  refine ⟨rinv_step_aux M r op hi.rinv hok, ?_⟩
  by_cases hf : op.refills = false
  · obtain ⟨eA, ea, _, _⟩ := step_frame r op hf
    rw [eA, ea]; exact hi.pot
  · cases op with
    | reserve k => exact ainv_refill M r _ hi ⟨hparts, .inl ⟨k, rfl, hok⟩⟩
    | append m => exact ainv_refill M r _ hi ⟨hparts, .inr ⟨m, rfl, hok⟩⟩
    | roundTrip =>
      have hp : r.parts = 0 := hparts
      have e : (step r .roundTrip).A = r.A ∧ (step r .roundTrip).allocs = r.allocs := by
        simp only [step, hp]
        split
        · simp at *
        · split
          · exact ⟨rfl, rfl⟩
          · exact ⟨rfl, rfl⟩
      rw [e.1, e.2]; exact hi.pot
    | unsplitLast n c =>
      obtain ⟨eA, ea, _, _⟩ := unsplitLast_frame r n c hparts
      rw [eA, ea]; exact hi.pot
    | _ => simp [Op.refills] at hf

theorem ainv_run (M : Nat) (ops : List Op) :
    ∀ r, AInv M r → Recycled M r ops → AInv M (run r ops) := by
  induction ops with
  | nil => intro r hi _; exact hi
  | cons op ops ih =>
    intro r hi h
    exact ih (step r op) (ainv_step M r op hi h.2.1 h.1) h.2.2

/-- If every split-off part is dropped before the next refill, the number of byte-buffer
allocations over the whole history — of any length — is bounded by a function of `M` alone. -/
theorem allocs_bounded (A₀ M : Nat) (ops : List Op) (h : Recycled M (init A₀) ops) :
    (run (init A₀) ops).allocs ≤ Nat.log2 (4 * M + 8) + 3 := by
  obtain ⟨_, hpot⟩ := ainv_run M ops _ (ainv_init A₀ M) h
  rcases hpot with h1 | ⟨h2, h3⟩
  · omega
  · have hle : 2 ^ ((run (init A₀) ops).allocs + 1) ≤ 4 * M + 8 := by omega
    have := (Nat.le_log2 (n := 4 * M + 8) (by omega)).mpr hle
    omega

/-- the invariant is preserved by every operation that respects the bounds -/
theorem rinv_step (M : Nat) (r : Rec) (op : Op) (hi : RInv r) (ho : OpOKM M r op) : RInv (step r op) :=
  rinv_step_aux M r op hi ho

-- Non-vacuity: three rounds of a sample pattern respect the bound (M = 16).
def sampleOps : List Op := [.append 10, .splitTo 10, .dropPart, .reserve 5, .append 5, .split, .dropPart, .append 16]
example : HistOK 16 (init 0) sampleOps := by
  simp [sampleOps, HistOK, OpOKM, step, reserve, init, promote, growCap, origRepr, bitWidth]
example : (run (init 0) sampleOps).A = 21 ∧ (run (init 0) sampleOps).allocs = 2 := by decide

/-! ### the side conditions are decidable (so concrete histories can be checked by `decide`) -/

instance OpOKM.dec (M : Nat) (r : Rec) : (op : Op) → Decidable (OpOKM M r op)
  | .reserve k => inferInstanceAs (Decidable (r.len + k ≤ M))
  | .append m => inferInstanceAs (Decidable (r.len + m ≤ M))
  | .splitTo n => inferInstanceAs (Decidable (n ≤ r.len))
  | .advance n => inferInstanceAs (Decidable (n ≤ r.len))
  | .truncate n => inferInstanceAs (Decidable (n ≤ r.len))
  | .dropPart => inferInstanceAs (Decidable (0 < r.parts))
  | .unsplitLast n c =>
    inferInstanceAs (Decidable (r.off + r.cap + c ≤ r.A ∧ n ≤ c ∧ r.len + n ≤ M ∧ 0 < r.parts ∧ r.arc = true))
  | .split | .dropPinned | .dropOld | .splitOffTail | .roundTrip => isTrue trivial

instance HistOK.dec (M : Nat) : (r : Rec) → (ops : List Op) → Decidable (HistOK M r ops)
  | _, [] => isTrue trivial
  | r, op :: ops => @instDecidableAnd _ _ (OpOKM.dec M r op) (HistOK.dec M (step r op) ops)

/-! ### `unsplitLast`: non-vacuity, and why `Recycled` had to exclude its fall-back -/

/-- a history through all four branches of `unsplitLast`: the spare capacity is split off and merged
back (contiguous, main handle full); an empty zero-capacity part is dropped although the main handle is
not full; the main handle is emptied and takes over the part (`*self = other`); a part that cannot be
merged is copied (`extend_from_slice`), which — a part being alive — moves the buffer to a fresh
allocation and pins the old one -/
def unsplitOps : List Op :=
  [.append 4, .splitOffTail, .unsplitLast 0 4,            -- merge: (len 4, cap 4) + (0, 4)
   .truncate 3, .splitTo 0, .unsplitLast 0 0,             -- drop of an empty part, len 3 ≠ cap 8
   .splitOffTail, .truncate 0, .unsplitLast 0 5,          -- `*self = other`
   .append 3, .splitOffTail, .truncate 2, .unsplitLast 5 5] -- fall-back: copy, reallocates

example : HistOK 16 (init 8) unsplitOps := by decide
example : run (init 8) unsplitOps =
    { A := 7, off := 0, len := 7, cap := 7, arc := false, orig := 0, parts := 0, pinned := [8], allocs := 2 } := by
  decide
example : (run (init 8) unsplitOps).A ≤ B 8 16 := (alloc_size_bounded 8 16 unsplitOps (by decide)).1

/-- the condition `Recycled` imposed before `unsplitLast` modelled the fall-back of `BytesMut::unsplit`
to `extend_from_slice`: nothing was asked of an `unsplitLast` beyond `OpOKM` -/
def RecycledOld (M : Nat) : Rec → List Op → Prop
  | _, [] => True
  | r, op :: ops =>
    OpOKM M r op ∧ (match op with | .reserve _ | .append _ => r.parts = 0 | .roundTrip => r.parts = 0 | _ => True) ∧
      RecycledOld M (step r op) ops

instance RecycledOld.dec (M : Nat) : (r : Rec) → (ops : List Op) → Decidable (RecycledOld M r ops)
  | _, [] => isTrue trivial
  | r, op :: ops =>
    @instDecidableAnd _ _ (OpOKM.dec M r op)
      (@instDecidableAnd _ _
        (match op with
         | .reserve _ | .append _ | .roundTrip => inferInstanceAs (Decidable (r.parts = 0))
         | .splitTo _ | .split | .advance _ | .truncate _ | .dropPart | .dropPinned | .dropOld | .splitOffTail
         | .unsplitLast _ _ => isTrue trivial)
        (RecycledOld.dec M (step r op) ops))

/-- one round of: split the spare capacity off, shorten the contents, unsplit a 5-byte part that can no
longer be merged — the fall-back copies 5 bytes while the part is alive, i.e. allocates a fresh buffer
of `max(7, original capacity) = 1024` bytes, every round -/
def copyRound : List Op := [.truncate 3, .splitOffTail, .truncate 2, .unsplitLast 5 5]
def copyHist : List Op := .append 3 :: (List.replicate 10 copyRound).flatten

/-- **Why `Recycled` was adapted.**  With the exact `unsplitLast` the old condition no longer bounds the
number of allocations: `copyHist` satisfies it with `M = 7`, yet performs 11 allocations, more than
`log2(4M + 8) + 3 = 8` (and one more per further round).  This is the behaviour of the crate — an
`unsplit` that has to copy is a refill with a part outstanding — so `Recycled` now requires every
`unsplitLast` to be one of the non-copying kinds (`r.len = 0 ∨ c = 0 ∨ r.len = r.cap`). -/
example : RecycledOld 7 (init 1024) copyHist ∧ (run (init 1024) copyHist).allocs = 11 ∧
    Nat.log2 (4 * 7 + 8) + 3 = 8 ∧ HistOK 7 (init 1024) copyHist ∧
    (run (init 1024) copyHist).A = 1024 := by decide

/-! ### `roundTrip` re-records the original capacity also for a full KIND_VEC handle -/

/-- A buffer created with 8 bytes that has grown to 2048: the round trip of the (full, hence
promotable) handle re-records `original_capacity_repr = 2` (`promotable_to_mut` goes through
`BytesMut::from_vec`), so the next refill with a live part allocates `max(10, 2048)` bytes.  Without the
round trip the recorded original capacity is still that of the 8-byte buffer and the refill allocates
10 bytes.  (Before its repair the model kept `orig` in the first history as well and predicted 10.) -/
example :
    (run (init 8) [.reserve 2048, .append 2048, .roundTrip, .splitTo 2048, .reserve 10]).A = 2048 ∧
    (run (init 8) [.reserve 2048, .append 2048, .splitTo 2048, .reserve 10]).A = 10 := by decide

end BytesVerif.Recycle
