/-
Soundness of the differential-testing oracles of the buf / mut judges (Judge/Buf.lean,
Judge/Mut.lean) with respect to the models M2 / M3: the property oracles never fire on the model's
own behaviour, i.e. they demand nothing the C09 / C10 / C11 / C12 theorems do not guarantee.

Main statements (complete proofs, no extra hypotheses about strings: the tokenizer `words`, the legacy
`String.splitOn`, `toString` / `toNat?` and the hex rendering are all proved to round-trip in
Lemmas/OracleSoundBuf.lean):

* `read_oracle_sound` — read side, every operation `BufJ.modelOp` understands (`rem`, `chunk`, `fill`,
  `adv`, `consume`, `vec`, `copy`, `trycopy`, `tobytes`, `next`, `read`, `setlimit`, `get <method>`
  for every row of the regenerated getter table): `wf pre`, bytes `< 256`,
  `modelOp cfg pre op = some (mres, mpost)` ⊢ `oracle pre op (words mres) mpost = none`, and
  `innerOracle pre post = none` for consuming operations.  Per-family lemmas: `sound_rem`,
  `sound_chunk`, `sound_fill`, `sound_adv`, `sound_copy`, `sound_trycopy`, `sound_next`, `sound_vec`,
  `sound_get`, `sound_read`, `sound_setlimit`; token form `read_sound_tokens`.
* `nth_oracle_sound` — `nth k` (`BufJ.nthModel` / `BufJ.nthOracle`, kept outside `modelOp` / `oracle`):
  `wf pre` ⊢ `nthOracle pre ["nth", toString k] (words r.1) r.2 = none` for `r := nthModel k pre`;
  parsed-value form `nthModel_spec` (result `(den pre)[k]?`, post-state denotes `(den pre).drop (k+1)`
  and is `wf`, no panic), token form `sound_nth`, the judge's combined check `nth_judge_sound`.
* `write_sound` (and `write_sound'`, `write_sound_default`) — write side, every operation
  `MutJ.modelOp` understands (`remmut`, `chunkmut`, `putslice`, `putbytes`, `putbuf`, `put <method>`
  for every row of the regenerated putter table, `write`, `flush`, `setlimit`), under the hypotheses
  of the C11 theorems (`e.ok`, `wfM`, `ordM`, `noHardLimit`, sizes `< W`, well-formed `putbuf` source):
  `MutJ.oracle pre op mres mpost = none` and `MutJ.innerOracle pre post = none` for the writing
  operations.  Per-family lemmas: `sound_remmut`, `sound_chunkmut`, `sound_putslice`,
  `sound_putbytes`, `sound_putbuf`, `sound_put`, `sound_write`, `sound_flush`, `sound_setlimitM`.
* `doesNotFit_rule_silent`, `initialLimit_rule_silent` — the two remaining model-independent rules of
  `MutJ.judgeOp` / `MutJ.step` (the guard-byte rule looks only at a flag measured on the real
  memory, there is nothing in the model it could be compared with).
* the `example`s at the end: each hypothesis is needed (the oracle does fire on the model's own
  answer for a non-`ordM` chain, a "byte" ≥ 256, a `VecDeque` with an empty front slice).
-/
import BytesVerif.Lemmas.OracleSoundBuf
namespace BytesVerif.OracleSound
open BytesVerif.Judge BytesVerif.Buf BytesVerif.Codec BytesVerif.Generated

/-! ## Read side (Judge/Buf.lean) -/

section Read
open BytesVerif.Judge.BufJ

/-- The statement proved for every operation: the model's result text is the space-separated
concatenation of tokens `ws` (each a word for the tokenizer), and on these tokens and the model's
post-state neither the property oracle nor (for consuming operations) the C12 inner-state oracle
fires. -/
def SoundAt (pre : BufT) (op : List String) (mres : String) (mpost : Option BufT) : Prop :=
  ∃ ws, mres = " ".intercalate ws ∧ (∀ w ∈ ws, Tok w) ∧ oracle pre op ws mpost = none ∧
    (consuming op = true → ∀ post, mpost = some post → innerOracle pre post = none)

theorem innerOracle_of {pre post : BufT} {k : Nat} (hk : k ≤ (den pre).length)
    (hd : den post = (den pre).drop k) (hi : InnerOK pre post k) : innerOracle pre post = none := by
  have hkk : (den pre).length - (den post).length = k := by rw [hd, List.length_drop]; omega
  cases pre with
  | take i lim =>
    obtain ⟨i', rfl, h2⟩ := hi
    simp only [innerOracle, hkk, h2]
    simp
  | chain a b =>
    obtain ⟨a', b', rfl, h2, h3⟩ := hi
    simp only [innerOracle, hkk, h2, h3]
    simp
  | _ => cases post <;> simp [innerOracle]

theorem tok_lit_ok : Tok "ok" := ⟨by decide, by decide⟩
theorem tok_lit_panic : Tok "panic" := ⟨by decide, by decide⟩

theorem join1 (a : String) : " ".intercalate [a] = a := rfl

/-- `rem` -/
theorem sound_rem (pre : BufT) (hwf : wf pre) :
    SoundAt pre ["rem"] (toString (remaining pre)) (some pre) := by
  refine ⟨[toString (remaining pre)], rfl, by simpa using tok_nat _, ?_, by simp [consuming]⟩
  simp [oracle, remaining_eq pre hwf]

/-- `chunk` / `fill` -/
theorem oracle_chunk (pre : BufT) (hwf : wf pre) (hb : ∀ x ∈ den pre, x < 256) (o : String)
    (ho : o = "chunk" ∨ o = "fill") :
    oracle pre [o] [toHex (chunk pre)] (some pre) = none := by
  have hp := chunk_prefix pre hwf
  have hbc : ∀ x ∈ chunk pre, x < 256 := fun x hx => hb x (hp.subset hx)
  have hpre : isPrefix (chunk pre) (den pre) = true := by
    have := prefix_eq_take hp
    simp only [isPrefix, Bool.and_eq_true, decide_eq_true_eq, beq_iff_eq]
    exact ⟨hp.length_le, this.symm⟩
  have hne : ((chunk pre).isEmpty && !(den pre).isEmpty) = false := by
    by_cases hc : chunk pre = []
    · have := (chunk_nil_iff pre hwf).1 hc
      rw [remaining_eq pre hwf] at this
      simp [List.length_eq_zero_iff.1 this]
    · simp [hc]
  rcases ho with rfl | rfl <;> simp [oracle, parseHex_toHex _ hbc, hpre, hne]

theorem sound_chunk (pre : BufT) (hwf : wf pre) (hb : ∀ x ∈ den pre, x < 256) :
    SoundAt pre ["chunk"] (toHex (chunk pre)) (some pre) := by
  have hp := chunk_prefix pre hwf
  have hbc : ∀ x ∈ chunk pre, x < 256 := fun x hx => hb x (hp.subset hx)
  exact ⟨[toHex (chunk pre)], rfl, by simpa using tok_toHex _ hbc,
    oracle_chunk pre hwf hb _ (.inl rfl), by simp [consuming]⟩

theorem sound_fill (pre : BufT) (hwf : wf pre) (hb : ∀ x ∈ den pre, x < 256) :
    SoundAt pre ["fill"] (toHex (readerFillBuf pre)) (some pre) := by
  have hp := chunk_prefix pre hwf
  have hbc : ∀ x ∈ chunk pre, x < 256 := fun x hx => hb x (hp.subset hx)
  exact ⟨[toHex (chunk pre)], rfl, by simpa using tok_toHex _ hbc,
    oracle_chunk pre hwf hb _ (.inr rfl), by simp [consuming]⟩

/-- `adv n` / `consume n` -/
theorem sound_adv (pre : BufT) (hwf : wf pre) (o s : String) (n : Nat) (ho : o = "adv" ∨ o = "consume")
    (hs : s.toNat? = some n) :
    SoundAt pre [o, s]
      (match advance pre n with | .ok _ => "ok" | .panic => "panic")
      (match advance pre n with | .ok b' => some b' | .panic => none) := by
  by_cases hn : n ≤ remaining pre
  · obtain ⟨post, h1, h2, _⟩ := advance_ok pre n hwf hn
    have hn' : n ≤ (den pre).length := by rwa [← remaining_eq pre hwf]
    rw [h1]
    refine ⟨["ok"], rfl, by simpa using tok_lit_ok, ?_, ?_⟩
    · rcases ho with rfl | rfl <;> simp [oracle, hs, hn', h2]
    · intro _ p hp; cases hp
      exact innerOracle_of hn' h2 (innerOK_advance hwf hn h1)
  · have h1 := advance_panic pre n hwf (by omega)
    have hn' : ¬ n ≤ (den pre).length := by rwa [← remaining_eq pre hwf]
    rw [h1]
    refine ⟨["panic"], rfl, by simpa using tok_lit_panic, ?_, by simp⟩
    rcases ho with rfl | rfl <;> simp [oracle, hs, hn']

/-- `copy n` / `tobytes n`: `f` is `copyToSlice` resp. `copyToBytes` -/
theorem sound_copy (pre : BufT) (hwf : wf pre) (hb : ∀ x ∈ den pre, x < 256) (o s : String) (n : Nat)
    (f : BufT → Nat → Res (Bs × BufT))
    (ho : (o = "copy" ∧ f = copyToSlice) ∨ (o = "tobytes" ∧ f = copyToBytes))
    (hs : s.toNat? = some n) :
    SoundAt pre [o, s]
      (match f pre n with | .ok (bs, _) => toHex bs | .panic => "panic")
      (match f pre n with | .ok (_, b') => some b' | .panic => none) := by
  by_cases hn : n ≤ remaining pre
  · have hn' : n ≤ (den pre).length := by rwa [← remaining_eq pre hwf]
    have hex : ∃ post, f pre n = .ok ((den pre).take n, post) ∧ den post = (den pre).drop n ∧
        InnerOK pre post n := by
      rcases ho with ⟨_, rfl⟩ | ⟨_, rfl⟩
      · obtain ⟨post, h1, h2, _⟩ := copyToSlice_ok pre n hwf hn
        exact ⟨post, h1, h2, innerOK_copyToSlice hwf hn h1⟩
      · obtain ⟨post, h1, h2, _⟩ := copyToBytes_ok pre n hwf hn
        exact ⟨post, h1, h2, innerOK_copyToBytes hwf hn h1⟩
    obtain ⟨post, h1, h2, h3⟩ := hex
    rw [h1]
    have hbt : ∀ x ∈ (den pre).take n, x < 256 := fun x hx => hb x (List.mem_of_mem_take hx)
    refine ⟨[toHex ((den pre).take n)], rfl, by simpa using tok_toHex _ hbt, ?_, ?_⟩
    · rcases ho with ⟨rfl, _⟩ | ⟨rfl, _⟩ <;> simp [oracle, hs, hn', h2] <;> split <;> simp
    · intro _ p hp; cases hp
      exact innerOracle_of hn' h2 h3
  · have hn' : ¬ n ≤ (den pre).length := by rwa [← remaining_eq pre hwf]
    have h1 : f pre n = .panic := by
      rcases ho with ⟨_, rfl⟩ | ⟨_, rfl⟩
      · exact copyToSlice_panic pre n hwf (by omega)
      · exact copyToBytes_panic pre n hwf (by omega)
    rw [h1]
    refine ⟨["panic"], rfl, by simpa using tok_lit_panic, ?_, by simp⟩
    rcases ho with ⟨rfl, _⟩ | ⟨rfl, _⟩ <;> simp [oracle, hs, hn']

theorem str_eq_of_toList {a b : String} (h : a.toList = b.toList) : a = b := String.toList_inj.1 h

theorem tok_lit_err : Tok "err" := ⟨by decide, by decide⟩
theorem tok_lit_none : Tok "none" := ⟨by decide, by decide⟩
theorem tok_lit_some : Tok "some" := ⟨by decide, by decide⟩
theorem tok_lit_v : Tok "v" := ⟨by decide, by decide⟩
theorem tok_lit_e : Tok "e" := ⟨by decide, by decide⟩
theorem tok_lit_na : Tok "na" := ⟨by decide, by decide⟩

/-- `trycopy n` -/
theorem sound_trycopy (pre : BufT) (hwf : wf pre) (hb : ∀ x ∈ den pre, x < 256) (s : String) (n : Nat)
    (hs : s.toNat? = some n) :
    SoundAt pre ["trycopy", s]
      (match tryCopyToSlice pre n with
        | .ok (some bs, _) => s!"ok {toHex bs}"
        | .ok (none, _) => s!"err {n} {remaining pre}"
        | .panic => "panic")
      (match tryCopyToSlice pre n with
        | .ok (some _, b') => some b'
        | .ok (none, b') => some b'
        | .panic => none) := by
  by_cases hn : n ≤ remaining pre
  · have hn' : n ≤ (den pre).length := by rwa [← remaining_eq pre hwf]
    obtain ⟨post, h1, h2, _⟩ := tryCopyToSlice_ok pre n hwf hn
    rw [h1]
    have hbt : ∀ x ∈ (den pre).take n, x < 256 := fun x hx => hb x (List.mem_of_mem_take hx)
    refine ⟨["ok", toHex ((den pre).take n)], rfl, ?_, ?_, ?_⟩
    · intro w hw
      simp only [List.mem_cons, List.not_mem_nil, or_false] at hw
      rcases hw with rfl | rfl
      · exact tok_lit_ok
      · exact tok_toHex _ hbt
    · simp [oracle, hs, hn', h2]
    · intro _ p hp; cases hp
      exact innerOracle_of hn' h2 (innerOK_tryCopy hwf hn h1)
  · have hn' : ¬ n ≤ (den pre).length := by rwa [← remaining_eq pre hwf]
    rw [tryCopyToSlice_err pre n (by omega)]
    refine ⟨["err", toString n, toString (remaining pre)], rfl, ?_, ?_, ?_⟩
    · intro w hw
      simp only [List.mem_cons, List.not_mem_nil, or_false] at hw
      rcases hw with rfl | rfl | rfl
      · exact tok_lit_err
      · exact tok_nat _
      · exact tok_nat _
    · simp [oracle, hs, hn', remaining_eq pre hwf]
    · intro _ p hp; cases hp
      exact innerOracle_of (Nat.zero_le _) (by simp) (innerOK_refl pre)

/-- `next` -/
theorem sound_next (pre : BufT) (hwf : wf pre) :
    SoundAt pre ["next"]
      (match iterNext pre with
        | .ok (some x, _) => s!"some {x}"
        | .ok (none, _) => "none"
        | .panic => "panic")
      (match iterNext pre with
        | .ok (some _, b') => some b'
        | .ok (none, b') => some b'
        | .panic => none) := by
  cases hd : den pre with
  | nil =>
    rw [iterNext_none pre hwf hd]
    refine ⟨["none"], rfl, by simpa using tok_lit_none, by simp [oracle, hd], ?_⟩
    intro _ p hp; cases hp
    exact innerOracle_of (Nat.zero_le _) (by simp) (innerOK_refl pre)
  | cons x r =>
    obtain ⟨post, h1, h2, _⟩ := iterNext_some pre hwf x r hd
    rw [h1]
    refine ⟨["some", toString x], rfl, ?_, by simp [oracle, hd, h2], ?_⟩
    · intro w hw
      simp only [List.mem_cons, List.not_mem_nil, or_false] at hw
      rcases hw with rfl | rfl
      · exact tok_lit_some
      · exact tok_nat _
    · intro _ p hp; cases hp
      have hr : 1 ≤ remaining pre := by rw [remaining_eq pre hwf, hd]; simp
      have hadv : advance pre 1 = .ok post := by
        have hr0 : ¬ remaining pre = 0 := by omega
        simp only [iterNext, hr0, ↓reduceIte] at h1
        split at h1
        · cases h1
        · cases ha : advance pre 1 with
          | panic => rw [ha] at h1; cases h1
          | ok b' => rw [ha] at h1; simp only [Res.map, Res.ok.injEq, Prod.mk.injEq] at h1; rw [h1.2]
      exact innerOracle_of (by rw [hd]; simp) (by rw [h2, hd]; rfl) (innerOK_advance hwf hr hadv)

/-- `read n` -/
theorem sound_read (pre : BufT) (hwf : wf pre) (hb : ∀ x ∈ den pre, x < 256) (s : String) (n : Nat)
    (hs : s.toNat? = some n) :
    SoundAt pre ["read", s]
      (match readerRead pre n with
        | .ok (bs, _) => s!"{bs.length} {toHex bs}"
        | .panic => "panic")
      (match readerRead pre n with
        | .ok (_, b') => some b'
        | .panic => none) := by
  obtain ⟨post, h1, h2, _⟩ := readerRead_spec pre n hwf
  rw [h1]
  have hrem := remaining_eq pre hwf
  have hm : min (remaining pre) n = min (den pre).length n := by rw [hrem]
  rw [hm] at h2
  rw [hm]
  have hml : min (den pre).length n ≤ (den pre).length := Nat.min_le_left _ _
  have hbt : ∀ x ∈ (den pre).take (min (den pre).length n), x < 256 :=
    fun x hx => hb x (List.mem_of_mem_take hx)
  have hlen : ((den pre).take (min (den pre).length n)).length = min (den pre).length n := by
    rw [List.length_take]; omega
  refine ⟨[toString (min (den pre).length n), toHex ((den pre).take (min (den pre).length n))], ?_, ?_, ?_, ?_⟩
  · simp only [hlen]; rfl
  · intro w hw
    simp only [List.mem_cons, List.not_mem_nil, or_false] at hw
    rcases hw with rfl | rfl
    · exact tok_nat _
    · exact tok_toHex _ hbt
  · simp [oracle, hs, h2]
  · intro _ p hp; cases hp
    have hmr : min (den pre).length n ≤ remaining pre := by omega
    have h1' : copyToSlice pre (min (den pre).length n)
        = .ok ((den pre).take (min (remaining pre) n), post) := by rw [← hm]; exact h1
    exact innerOracle_of hml h2 (innerOK_copyToSlice hwf hmr h1')

/-- `setlimit n` (not a property operation: the oracle has no opinion) -/
theorem sound_setlimit (pre : BufT) (s : String) (n : Nat) :
    SoundAt pre ["setlimit", s]
      (match setLimit pre n with | some _ => "ok" | none => "na")
      (match setLimit pre n with | some b' => some b' | none => some pre) := by
  cases setLimit pre n with
  | some b' => exact ⟨["ok"], rfl, by simpa using tok_lit_ok, by simp [oracle], by simp [consuming]⟩
  | none => exact ⟨["na"], rfl, by simpa using tok_lit_na, by simp [oracle], by simp [consuming]⟩

theorem tok_lit_untouched : Tok "untouched=1" := ⟨by decide, by decide⟩

/-- the text `modelOp` produces for `vec k` -/
def vecText (sl : List Bs) : String :=
  s!"{sl.length} " ++ (if sl.isEmpty then "." else String.intercalate "," (sl.map toHex)) ++ " untouched=1"

theorem vecText_eq (sl : List Bs) :
    vecText sl = " ".intercalate [toString sl.length, if sl.isEmpty then "." else commaHex sl, "untouched=1"] := by
  apply str_eq_of_toList
  have hts : ∀ s : String, toString s = s := fun _ => rfl
  simp [vecText, commaHex, hts]

/-- `vec k` -/
theorem sound_vec (pre : BufT) (hwf : wf pre) (hb : ∀ x ∈ den pre, x < 256)
    (s : String) (k : Nat) (hs : s.toNat? = some k) :
    SoundAt pre ["vec", s] (vecText (chunksVectored pre k)) (some pre) := by
  have hlen := chunksVectored_length pre k
  have hpre := chunksVectored_prefix pre k hwf
  have hbs : ∀ t ∈ chunksVectored pre k, ∀ x ∈ t, x < 256 := fun t ht x hx =>
    hb x (hpre.subset (List.mem_flatten.2 ⟨t, ht, hx⟩))
  have hpf : isPrefix (chunksVectored pre k).flatten (den pre) = true := by
    have := prefix_eq_take hpre
    simp only [isPrefix, Bool.and_eq_true, decide_eq_true_eq, beq_iff_eq]
    exact ⟨hpre.length_le, this.symm⟩
  have hne : ¬ (¬ den pre = [] ∧ 0 < k ∧ ∀ t ∈ chunksVectored pre k, t = []) := by
    rintro ⟨hd, hk, hall⟩
    have hr : 0 < remaining pre := by
      rw [remaining_eq pre hwf]; exact List.length_pos_iff.2 hd
    obtain ⟨t, ht, hne⟩ := chunksVectored_nonempty pre k hwf hr hk
    exact hne (hall t ht)
  rw [vecText_eq]
  generalize hsl : chunksVectored pre k = sl at *
  refine ⟨_, rfl, ?_, ?_, by simp [consuming]⟩
  · intro w hw
    simp only [List.mem_cons, List.not_mem_nil, or_false] at hw
    rcases hw with rfl | rfl | rfl
    · exact tok_nat _
    · cases sl with
      | nil => exact ⟨by decide, by decide⟩
      | cons t r => simpa using commaHex_tok t r hbs
    · exact tok_lit_untouched
  · cases sl with
    | nil =>
      have hne' : den pre = [] ∨ k = 0 := by
        by_cases hd : den pre = []
        · exact .inl hd
        · right
          by_cases hk : k = 0
          · exact hk
          · exact absurd ⟨hd, by omega, by simp⟩ hne
      rcases hne' with hd | hk
      · simp [oracle, hs, isPrefix, hd]
      · simp [oracle, hs, isPrefix, hk]
    | cons t r =>
      have hnd : (commaHex (t :: r) == ".") = false := by
        rw [beq_eq_false_iff_ne]; exact commaHex_ne_dot _ hbs
      have hsp : (commaHex (t :: r)).splitOn "," = (t :: r).map toHex := by
        apply splitOn_intercalate_str "," ',' (by decide)
        · simp
        · intro w hw
          simp only [List.mem_map] at hw
          obtain ⟨u, hu, rfl⟩ := hw
          have := hexTok_toHex u (hbs u hu)
          exact fun hc => hexAlphabet_not_comma (this.2 _ hc)
      have hall : ((t :: r).all fun x => x.isEmpty) = true → (den pre = [] ∨ k = 0) := by
        intro ha
        by_cases hd : den pre = []
        · exact .inl hd
        · right
          by_cases hk : k = 0
          · exact hk
          · refine absurd ⟨hd, by omega, ?_⟩ hne
            intro u hu
            have := List.all_eq_true.1 ha u hu
            simpa using this
      simp only [oracle, hs, toNat_toString, List.isEmpty_cons, Bool.false_eq_true, ↓reduceIte, hnd, hsp,
        mapM_parseHex _ hbs, hpf]
      have hk' : ¬ (t :: r).length > k := by omega
      simp only [hk', decide_false, Bool.false_or, bne_self_eq_false, Bool.false_eq_true, ↓reduceIte,
        Bool.not_true]
      by_cases ha : ((t :: r).all fun x => x.isEmpty) = true
      · rcases hall ha with hd | hk
        · simp [hd]
        · simp [hk]
      · simp [ha]

theorem innerOracle_of_moved {pre post : BufT} (h : Moved pre post) : innerOracle pre post = none := by
  obtain ⟨k, h1, h2, h3⟩ := h
  exact innerOracle_of h1 h2 h3

theorem findRow_mem {name : String} {row : Row} (h : findRow name = some row) : row ∈ getters :=
  List.mem_of_find?_eq_some h

/-- `get <method> [nbytes]`, for every row of the regenerated getter table -/
theorem sound_get (cfg : Cfg) (pre : BufT) (hwf : wf pre) (hb : ∀ x ∈ den pre, x < 256)
    (name : String) (rest : List String) (row : Row) (hrow : findRow name = some row) :
    SoundAt pre ("get" :: name :: rest)
      (showOut (evalBody cfg signExtForm row.body ((rest.head?.bind (·.toNat?)).getD 0) pre)).1
      (showOut (evalBody cfg signExtForm row.body ((rest.head?.bind (·.toNat?)).getD 0) pre)).2 := by
  have hok : rowOK signExtForm row = true :=
    List.all_eq_true.mp Cert.C10.getters_ok row (findRow_mem hrow)
  generalize hnb : (rest.head?.bind (·.toNat?)).getD 0 = nb
  have hrem := remaining_eq pre hwf
  -- the inner-state oracle, uniformly
  have hinner : ∀ post, (showOut (evalBody cfg signExtForm row.body nb pre)).2 = some post →
      innerOracle pre post = none := by
    intro post hp
    cases he : evalBody cfg signExtForm row.body nb pre with
    | panic => rw [he] at hp; simp [showOut] at hp
    | ok p =>
      obtain ⟨out, b'⟩ := p
      have hm := evalBody_moved cfg signExtForm row.body nb pre hwf out b' he
      rw [he] at hp
      cases out <;> (simp only [showOut, Option.some.injEq] at hp; subst hp; exact innerOracle_of_moved hm)
  by_cases hvar : (row.spec.kind = .varUint ∨ row.spec.kind = .varInt) ∧ 8 < nb
  · -- nbytes > 8
    have h1 := get_too_wide cfg signExtForm row hok pre nb hvar.1 hvar.2
    rw [h1]
    refine ⟨["panic"], rfl, by simpa using tok_lit_panic, ?_, by simp [showOut]⟩
    have : (row.spec.kind == .varUint || row.spec.kind == .varInt) = true := by
      rcases hvar.1 with h | h <;> simp [h]
    simp [oracle, hrow, hnb, this, hvar.2]
  · have hw : widthOK row.spec nb := by
      unfold widthOK
      split
      · by_cases h8 : nb ≤ 8
        · exact h8
        · exact absurd ⟨.inl ‹_›, by omega⟩ hvar
      · by_cases h8 : nb ≤ 8
        · exact h8
        · exact absurd ⟨.inr ‹_›, by omega⟩ hvar
      · trivial
    have hnv : ((row.spec.kind == .varUint || row.spec.kind == .varInt) && decide (nb > 8)) = false := by
      rw [Bool.and_eq_false_iff]
      by_cases h8 : nb > 8
      · left
        have : ¬ (row.spec.kind = .varUint ∨ row.spec.kind = .varInt) := fun h => hvar ⟨h, h8⟩
        simp only [not_or] at this
        simp [this.1, this.2]
      · right; simp [h8]
    by_cases hs : row.spec.size nb ≤ remaining pre
    · obtain ⟨post, h1, h2, _⟩ := get_ok cfg signExtForm row hok pre hwf hb nb hw hs
      have hs' : row.spec.size nb ≤ (den pre).length := by rwa [← hrem]
      refine ⟨["v", toString (decode row.spec ((den pre).take (row.spec.size nb)))], ?_, ?_, ?_, fun _ => hinner⟩
      · rw [h1]; rfl
      · intro w hw
        simp only [List.mem_cons, List.not_mem_nil, or_false] at hw
        rcases hw with rfl | rfl
        · exact tok_lit_v
        · exact tok_int _
      · rw [h1]
        simp [oracle, hrow, hnb, hnv, hs', showOut, h2]
    · have h1 := get_short cfg signExtForm row hok pre hwf nb hw (by omega)
      have hs' : ¬ row.spec.size nb ≤ (den pre).length := by rwa [← hrem]
      cases ht : row.spec.isTry with
      | true =>
        rw [ht] at h1; simp only [↓reduceIte] at h1
        refine ⟨["e", toString (row.spec.size nb), toString (remaining pre)], ?_, ?_, ?_, fun _ => hinner⟩
        · rw [h1]; rfl
        · intro w hw
          simp only [List.mem_cons, List.not_mem_nil, or_false] at hw
          rcases hw with rfl | rfl | rfl
          · exact tok_lit_e
          · exact tok_nat _
          · exact tok_nat _
        · rw [h1]
          simp [oracle, hrow, hnb, hnv, hs', showOut, ht, hrem]
      | false =>
        rw [ht] at h1; simp only [Bool.false_eq_true, ↓reduceIte] at h1
        refine ⟨["panic"], ?_, by simpa using tok_lit_panic, ?_, fun _ => hinner⟩
        · rw [h1]; rfl
        · rw [h1]
          simp [oracle, hrow, hnb, hnv, hs', ht]

/-- **Read side, all operations**: whatever `modelOp` answers for an operation the judge understands,
on that answer the C09/C10/C12 oracles are silent. -/
theorem read_sound_tokens (cfg : Cfg) (pre : BufT) (hwf : wf pre)
    (hb : ∀ x ∈ den pre, x < 256) (op : List String) (mres : String) (mpost : Option BufT)
    (h : modelOp cfg pre op = some (mres, mpost)) : SoundAt pre op mres mpost := by
  unfold modelOp at h
  simp only at h
  split at h
  · -- rem
    cases h; exact sound_rem pre hwf
  · cases h; exact sound_chunk pre hwf hb
  · cases h; exact sound_fill pre hwf hb
  · -- adv
    rename_i s
    cases hs : s.toNat? with
    | none => rw [hs] at h; cases h
    | some n =>
      rw [hs] at h; simp only [Option.map_some, Option.some.injEq] at h
      have := sound_adv pre hwf "adv" s n (.inl rfl) hs
      cases ha : advance pre n <;> (rw [ha] at h this; cases h; exact this)
  · -- consume
    rename_i s
    cases hs : s.toNat? with
    | none => rw [hs] at h; cases h
    | some n =>
      rw [hs] at h; simp only [Option.map_some, Option.some.injEq, readerConsume] at h
      have := sound_adv pre hwf "consume" s n (.inr rfl) hs
      cases ha : advance pre n <;> (rw [ha] at h this; cases h; exact this)
  · -- vec
    rename_i s
    cases hs : s.toNat? with
    | none => rw [hs] at h; cases h
    | some k =>
      rw [hs] at h; simp only [Option.map_some, Option.some.injEq] at h
      cases h
      exact sound_vec pre hwf hb s k hs
  · -- copy
    rename_i s
    cases hs : s.toNat? with
    | none => rw [hs] at h; cases h
    | some n =>
      rw [hs] at h; simp only [Option.map_some, Option.some.injEq] at h
      have := sound_copy pre hwf hb "copy" s n copyToSlice (.inl ⟨rfl, rfl⟩) hs
      cases ha : copyToSlice pre n <;> (rw [ha] at h this; cases h; exact this)
  · -- trycopy
    rename_i s
    cases hs : s.toNat? with
    | none => rw [hs] at h; cases h
    | some n =>
      rw [hs] at h; simp only [Option.map_some, Option.some.injEq] at h
      have := sound_trycopy pre hwf hb s n hs
      cases ha : tryCopyToSlice pre n with
      | panic => rw [ha] at h this; cases h; exact this
      | ok p =>
        obtain ⟨r, b'⟩ := p
        cases r <;> (rw [ha] at h this; cases h; exact this)
  · -- tobytes
    rename_i s
    cases hs : s.toNat? with
    | none => rw [hs] at h; cases h
    | some n =>
      rw [hs] at h; simp only [Option.map_some, Option.some.injEq] at h
      have := sound_copy pre hwf hb "tobytes" s n copyToBytes (.inr ⟨rfl, rfl⟩) hs
      cases ha : copyToBytes pre n <;> (rw [ha] at h this; cases h; exact this)
  · -- next
    simp only [Option.some.injEq] at h
    have := sound_next pre hwf
    cases ha : iterNext pre with
    | panic => rw [ha] at h this; cases h; exact this
    | ok p =>
      obtain ⟨r, b'⟩ := p
      cases r <;> (rw [ha] at h this; cases h; exact this)
  · -- read
    rename_i s
    cases hs : s.toNat? with
    | none => rw [hs] at h; cases h
    | some n =>
      rw [hs] at h; simp only [Option.map_some, Option.some.injEq] at h
      have := sound_read pre hwf hb s n hs
      cases ha : readerRead pre n <;> (rw [ha] at h this; cases h; exact this)
  · -- setlimit
    rename_i s
    cases hs : s.toNat? with
    | none => rw [hs] at h; cases h
    | some n =>
      rw [hs] at h; simp only [Option.map_some, Option.some.injEq] at h
      have := sound_setlimit pre s n
      cases ha : setLimit pre n <;> (rw [ha] at h this; cases h; exact this)
  · -- get
    rename_i name rest
    cases hr : findRow name with
    | none => rw [hr] at h; cases h
    | some row =>
      rw [hr] at h; simp only [Option.map_some, Option.some.injEq] at h
      have := sound_get cfg pre hwf hb name rest row hr
      rw [h] at this
      exact this
  · cases h

/-- **Read side, final form** (the statement of the assignment): for every well-formed tree over
`u8` bytes and every operation the judge understands, the property oracle is silent on the
tokenized result text of the model and its post-state, and for consuming operations so is the C12
inner-state oracle. -/
theorem read_oracle_sound (cfg : Cfg) (pre : BufT) (hwf : wf pre) (hb : ∀ x ∈ den pre, x < 256)
    (op : List String) (mres : String) (mpost : Option BufT)
    (h : modelOp cfg pre op = some (mres, mpost)) :
    oracle pre op (words mres) mpost = none ∧
      (consuming op = true → ∀ post, mpost = some post → innerOracle pre post = none) := by
  obtain ⟨ws, rfl, htok, h1, h2⟩ := read_sound_tokens cfg pre hwf hb op mres mpost h
  rw [words_join ws htok]
  exact ⟨h1, h2⟩

/-! ### `nth k` (`IntoIter::nth`, the provided `Iterator::nth`: k + 1 times `next`) -/

/-- the result words `nthOracle` demands -/
def nthWant (D : Bs) (k : Nat) : List String :=
  match D[k]? with | some x => ["some", toString x] | none => ["none"]

theorem nthWant_tok (D : Bs) (k : Nat) : ∀ w ∈ nthWant D k, Tok w := by
  intro w hw
  unfold nthWant at hw
  cases hk : D[k]? with
  | none =>
    rw [hk] at hw
    simp only [List.mem_cons, List.not_mem_nil, or_false] at hw
    subst hw; exact tok_lit_none
  | some x =>
    rw [hk] at hw
    simp only [List.mem_cons, List.not_mem_nil, or_false] at hw
    rcases hw with rfl | rfl
    · exact tok_lit_some
    · exact tok_nat _

/-- what `nthModel` computes (parsed-value form): the result text is `some x` for `x = (den pre)[k]`,
`none` when fewer than `k + 1` bytes remain; the model never panics on a well-formed tree, and the
post-state is well-formed and denotes the bytes after the first `k + 1`. -/
theorem nthModel_spec (k : Nat) (pre : BufT) (hwf : wf pre) :
    ∃ post, nthModel k pre = (" ".intercalate (nthWant (den pre) k), some post) ∧
      den post = (den pre).drop (k + 1) ∧ wf post := by
  induction k generalizing pre with
  | zero =>
    cases hd : den pre with
    | nil =>
      refine ⟨pre, ?_, by rw [hd]; rfl, hwf⟩
      simp only [nthModel, iterNext_none pre hwf hd]
      rfl
    | cons x r =>
      obtain ⟨post, h1, h2, h3⟩ := iterNext_some pre hwf x r hd
      refine ⟨post, ?_, by rw [h2]; rfl, h3⟩
      simp only [nthModel, h1]
      rfl
  | succ k ih =>
    cases hd : den pre with
    | nil =>
      refine ⟨pre, ?_, by rw [hd]; rfl, hwf⟩
      simp only [nthModel, iterNext_none pre hwf hd]
      rfl
    | cons x r =>
      obtain ⟨b', h1, h2, h3⟩ := iterNext_some pre hwf x r hd
      obtain ⟨post, h4, h5, h6⟩ := ih b' h3
      refine ⟨post, ?_, ?_, h6⟩
      · simp only [nthModel, h1]
        rw [h4, h2]
        simp only [nthWant, List.getElem?_cons_succ]
      · rw [h5, h2]; rfl

/-- `nth k`, token form: on the tokens of the model's answer and the model's post-state the `nth`
oracle is silent (`s` is any decimal text of `k`, e.g. with leading zeros). -/
theorem sound_nth (pre : BufT) (hwf : wf pre) (s : String) (k : Nat) (hs : s.toNat? = some k) :
    ∃ ws, (nthModel k pre).1 = " ".intercalate ws ∧ (∀ w ∈ ws, Tok w) ∧
      nthOracle pre ["nth", s] ws (nthModel k pre).2 = none ∧
      oracle pre ["nth", s] ws (nthModel k pre).2 = none ∧ consuming ["nth", s] = false := by
  obtain ⟨post, h1, h2, _⟩ := nthModel_spec k pre hwf
  refine ⟨nthWant (den pre) k, by rw [h1], nthWant_tok _ _, ?_, ?_, by simp [consuming]⟩
  · rw [h1]
    simp only [nthOracle, hs, Option.bind_some, Option.map_some, h2]
    cases hk : (den pre)[k]? <;> simp [nthWant, hk]
  · simp [oracle]

set_option linter.unusedVariables false in
/-- **`nthOracle` is sound** (string form, the statement of the assignment): on the tokenized result
text of `nthModel` and its post-state the oracle is silent.  (`hb` is not needed: the answer contains
no hex text.) -/
theorem nth_oracle_sound (pre : BufT) (hwf : wf pre) (hb : ∀ x ∈ den pre, x < 256) (k : Nat) :
    let r := nthModel k pre
    nthOracle pre ["nth", toString k] (words r.1) r.2 = none := by
  intro r
  obtain ⟨ws, h1, htok, h2, _⟩ := sound_nth pre hwf (toString k) k (toNat_toString k)
  show nthOracle pre ["nth", toString k] (words (nthModel k pre).1) (nthModel k pre).2 = none
  rw [h1, words_join ws htok]
  exact h2

/-- the judge's combined check `(nthOracle …).orElse fun _ => oracle …` for `nth k`, as `BufJ.step`
evaluates it on the model's own answer (`modelOpX`); `nth` is not a `consuming` operation for the
judge, so the C12 inner-state oracle is not consulted. -/
theorem nth_judge_sound (cfg : Cfg) (pre : BufT) (hwf : wf pre) (s : String) (mres : String)
    (mpost : Option BufT) (h : modelOpX cfg pre ["nth", s] = some (mres, mpost)) :
    ((nthOracle pre ["nth", s] (words mres) mpost).orElse
      fun _ => oracle pre ["nth", s] (words mres) mpost) = none ∧ consuming ["nth", s] = false := by
  simp only [modelOpX] at h
  cases hs : s.toNat? with
  | none => rw [hs] at h; cases h
  | some k =>
    rw [hs] at h
    simp only [Option.map_some, Option.some.injEq] at h
    obtain ⟨ws, h1, htok, h2, h3, h4⟩ := sound_nth pre hwf s k hs
    rw [h] at h1 h2 h3
    simp only at h1 h2 h3
    subst h1
    rw [words_join ws htok, h2, h3]
    exact ⟨rfl, h4⟩

end Read

/-! ## Write side (Judge/Mut.lean) -/

section Write
open BytesVerif.BufMut BytesVerif.PutCodec BytesVerif.Judge.MutJ

/-- the operations on which `judgeOp` evaluates the inner-state oracle -/
def isWriteOp (op : List String) : Bool :=
  ["putslice", "putbytes", "putbuf", "put", "write"].contains (op.headD "")

def SoundAtM (pre : MutT) (op : List String) (mres : String) (mpost : Option MutT) : Prop :=
  MutJ.oracle pre op mres mpost = none ∧
    (isWriteOp op = true → ∀ post, mpost = some post → MutJ.innerOracle pre post = none)

theorem fitsB_iff (t : MutT) (n : Nat) : fitsB t n = true ↔ fits t n := by
  unfold fitsB fits
  cases roomOpt t <;> simp

/-- a target the model writes `n` bytes into without panicking had room for them -/
theorem fits_of_not_lt {t : MutT} {n k : Nat} (h : wfM t) (hl : noHardLimit t k)
    (hr : ¬ remainingMut t < n) : fits t n := by
  unfold fits
  cases hro : roomOpt t with
  | none => trivial
  | some r => have := ((rem_room t k h hl).2 r hro).1; simp only; omega

/-- the `appended` rule of the oracle, for every operation that falls through to `specBytes` -/
theorem oracle_appended (pre : MutT) (op : List String) (res : String) (post : Option MutT) (bs : Bs)
    (hspec : specBytes op = some (some bs))
    (hA : fits pre bs.length → ∃ p, post = some p ∧ written p = written pre ++ bs ∧
      roomOpt p = (roomOpt pre).map (· - bs.length))
    (hB : remainingMut pre < bs.length → post = none) : MutJ.oracle pre op res post = none := by
  unfold MutJ.oracle
  simp only
  split
  · simp [specBytes] at hspec
  · simp [specBytes] at hspec
  · simp [specBytes] at hspec
  · simp [specBytes] at hspec
  · rw [hspec]
    simp only
    by_cases hf : fitsB pre bs.length = true
    · obtain ⟨p, rfl, h1, h2⟩ := hA ((fitsB_iff _ _).1 hf)
      simp [hf, h1, h2]
    · by_cases hr : remainingMut pre < bs.length
      · simp [hf, hB hr]
      · simp [hf, hr]

/-- what the C12 inner-state oracle checks, from the write-loop relation -/
theorem innerOracle_wr {e : Env} (he : e.ok) {pre post : MutT} {bs : Bs} (hwr : Wr e pre bs post)
    (ho : ordM pre) : MutJ.innerOracle pre post = none := by
  have hwe := (hwr.written_eq he ho).1
  have hk : (written post).length - (written pre).length = bs.length := by
    rw [hwe, List.length_append]; omega
  cases pre with
  | limit i lim =>
    obtain ⟨i', rfl⟩ := hwr.limit_shape i lim rfl
    simp only [written] at hwe hk
    simp [MutJ.innerOracle, written, hwe]
  | chain a b =>
    obtain ⟨a', b', rfl, h1, h2⟩ := hwr.chain_shape he a b rfl ho.1
    simp only [MutJ.innerOracle, hk]
    cases hra : roomOpt a with
    | some ra =>
      simp only [h1 ra hra, List.length_append, List.length_take]
      simp [Nat.min_comm]
    | none =>
      simp only [h2 hra, hwe]
      simp
  | grow k p w sp => cases post <;> rfl
  | fixed k w r => cases post <;> rfl
  | refMut i => cases post <;> rfl
  | box i => cases post <;> rfl

theorem innerOracle_putSlice (e : Env) (he : e.ok) (pre post : MutT) (bs : Bs) (h : wfM pre) (ho : ordM pre)
    (hl : noHardLimit pre (bs.length + 64)) (hw : bs.length < W)
    (hp : putSlice e pre bs = .ok post) : MutJ.innerOracle pre post = none := by
  have hrem : ¬ remainingMut pre < bs.length := fun hr => by
    rw [putSlice_panic e pre bs h hr] at hp; cases hp
  have hi : Inv pre bs.length := ⟨h, fits_of_not_lt h hl hrem, hl⟩
  cases pre with
  | limit i lim =>
    rw [putSlice_limit, putSliceDefault, if_neg hrem] at hp
    obtain ⟨t', h1, hwr⟩ := putLoop_wr e he (bs.length + 1) _ bs (by omega) hi hw
    rw [hp] at h1; cases h1
    exact innerOracle_wr he hwr ho
  | chain a b =>
    rw [putSlice_chain, putSliceDefault, if_neg hrem] at hp
    obtain ⟨t', h1, hwr⟩ := putLoop_wr e he (bs.length + 1) _ bs (by omega) hi hw
    rw [hp] at h1; cases h1
    exact innerOracle_wr he hwr ho
  | grow k p w sp => cases post <;> rfl
  | fixed k w r => cases post <;> rfl
  | refMut i => cases post <;> rfl
  | box i => cases post <;> rfl

/-- the model's post-state of a `put_slice`-based operation -/
def finPost (r : Res MutT) : Option MutT := match r with | .ok t' => some t' | .panic => none
def finRes (r : Res MutT) : String := match r with | .ok _ => "ok" | .panic => "panic"

/-- every operation that is specified by the bytes it appends and modelled by `putSlice` -/
theorem sound_putSlice_op (e : Env) (he : e.ok) (pre : MutT) (op : List String) (bs : Bs)
    (h : wfM pre) (ho : ordM pre) (hl : noHardLimit pre (bs.length + 64)) (hw : bs.length < W)
    (hspec : specBytes op = some (some bs)) :
    SoundAtM pre op (finRes (putSlice e pre bs)) (finPost (putSlice e pre bs)) := by
  refine ⟨oracle_appended pre op _ _ bs hspec ?_ ?_, ?_⟩
  · intro hf
    obtain ⟨t', h1, h2, _, h4⟩ := putSlice_ok e he pre bs h ho hf hl hw
    exact ⟨t', by rw [h1]; rfl, h2, h4⟩
  · intro hr
    rw [putSlice_panic e pre bs h hr]; rfl
  · intro _ post hp
    cases hps : putSlice e pre bs with
    | panic => rw [hps] at hp; cases hp
    | ok t' =>
      rw [hps] at hp
      simp only [finPost, Option.some.injEq] at hp
      subst hp
      exact innerOracle_putSlice e he pre t' bs h ho hl hw hps

/-- `remmut` (`hl`: a growable target below a `limit` is not within `r` bytes of its hard limit,
the side condition of `remainingMut_fixed`) -/
theorem sound_remmut (pre : MutT) (h : wfM pre)
    (hl : ∀ r, roomOpt pre = some r → r < isizeMax / 2 → noHardLimit pre r) :
    SoundAtM pre ["remmut"] (toString (remainingMut pre)) (some pre) := by
  refine ⟨?_, by simp [isWriteOp]⟩
  simp only [MutJ.oracle]
  cases hr : roomOpt pre with
  | none => rfl
  | some r =>
    simp only
    by_cases hlt : r < isizeMax / 2
    · have hW : r < W := by have := W_eq; have := isizeMax_eq; omega
      rw [remainingMut_fixed pre h r hr hW (hl r hr hlt)]
      simp
    · simp [hlt]

/-- `chunkmut` -/
theorem sound_chunkmut (e : Env) (he : e.ok) (pre : MutT) (h : wfM pre) (hl : noHardLimit pre 64) :
    SoundAtM pre ["chunkmut"] (toString (chunkMut e pre).1) (some (chunkMut e pre).2) := by
  refine ⟨?_, by simp [isWriteOp]⟩
  obtain ⟨h1, h2, h3, _, _⟩ := chunkMut_spec e he pre h hl
  have h1' : ((chunkMut e pre).1 == 0) = (remainingMut pre == 0) := by
    rw [Bool.eq_iff_iff]; simpa using h1
  have h2' : ¬ (chunkMut e pre).1 > remainingMut pre := by omega
  simp [MutJ.oracle, h1', h2', h3]

/-- `flush` -/
theorem sound_flush (pre : MutT) : SoundAtM pre ["flush"] "ok" (some pre) :=
  ⟨by simp [MutJ.oracle], by simp [isWriteOp]⟩

/-- `setlimit n` (no property attached) -/
theorem sound_setlimitM (pre : MutT) (s res : String) (post : Option MutT) :
    SoundAtM pre ["setlimit", s] res post :=
  ⟨by simp [MutJ.oracle, specBytes], by simp [isWriteOp]⟩

/-- `putslice <hex>` -/
theorem sound_putslice (e : Env) (he : e.ok) (pre : MutT) (hx : String) (bs : Bs) (hp : parseHex hx = some bs)
    (h : wfM pre) (ho : ordM pre) (hl : noHardLimit pre (bs.length + 64)) (hw : bs.length < W) :
    SoundAtM pre ["putslice", hx] (finRes (putSlice e pre bs)) (finPost (putSlice e pre bs)) :=
  sound_putSlice_op e he pre _ bs h ho hl hw (by simp [specBytes, hp])

/-- `putbytes <val> <cnt>` -/
theorem sound_putbytes (e : Env) (he : e.ok) (pre : MutT) (sv sc : String) (v c : Nat)
    (hv : sv.toNat? = some v) (hc : sc.toNat? = some c)
    (h : wfM pre) (ho : ordM pre) (hl : noHardLimit pre (c + 64)) (hw : c < W) :
    SoundAtM pre ["putbytes", sv, sc] (finRes (putBytes e pre v c)) (finPost (putBytes e pre v c)) := by
  have hlen : (List.replicate c v).length = c := List.length_replicate
  exact sound_putSlice_op e he pre _ (List.replicate c v) h ho (by rw [hlen]; exact hl)
    (by rw [hlen]; exact hw) (by simp [specBytes, hv, hc])

/-- `writerWrite_spec` of Props/C11 without its (unused) hypothesis `hr` -/
theorem writerWrite_spec' (e : Env) (he : e.ok) (t : MutT) (src : Bs) (h : wfM t) (ho : ordM t)
    (hl : noHardLimit t (src.length + 64)) (hw : src.length < W) :
    ∃ t', writerWrite e t src = .ok (min (remainingMut t) src.length, t') ∧
      written t' = written t ++ src.take (min (remainingMut t) src.length) ∧ wfM t' := by
  have hrr := rem_room t (src.length + 64) h hl
  simp only [writerWrite]
  have hnl : min (remainingMut t) src.length ≤ src.length := Nat.min_le_right _ _
  have hnr : min (remainingMut t) src.length ≤ remainingMut t := Nat.min_le_left _ _
  generalize min (remainingMut t) src.length = n at hnl hnr ⊢
  have hlen : (src.take n).length = n := by rw [List.length_take]; omega
  have hfit : fits t n := by
    unfold fits
    cases hro : roomOpt t with
    | none => trivial
    | some r => have := (hrr.2 r hro).1; simp only; omega
  obtain ⟨t', h1, h2, h3, _⟩ := putSlice_ok e he t (src.take n) h ho
    (by rw [hlen]; exact hfit) (by rw [hlen]; exact noHardLimit_mono (by omega) hl)
    (by rw [hlen]; omega)
  exact ⟨t', by rw [h1]; rfl, h2, h3⟩

/-- `write <hex>` (`Writer::write`) -/
theorem sound_write (e : Env) (he : e.ok) (pre : MutT) (hx : String) (bs : Bs) (hp : parseHex hx = some bs)
    (h : wfM pre) (ho : ordM pre) (hl : noHardLimit pre (bs.length + 64)) (hw : bs.length < W) :
    SoundAtM pre ["write", hx]
      (match writerWrite e pre bs with | .ok (n, _) => toString n | .panic => "panic")
      (match writerWrite e pre bs with | .ok (_, t') => some t' | .panic => none) := by
  obtain ⟨t', h1, h2, _⟩ := writerWrite_spec' e he pre bs h ho hl hw
  rw [h1]
  refine ⟨by simp [MutJ.oracle, hp, h2], ?_⟩
  intro _ post hpost; cases hpost
  have hps : putSlice e pre (bs.take (min (remainingMut pre) bs.length)) = .ok t' := by
    simp only [writerWrite] at h1
    cases hq : putSlice e pre (bs.take (min (remainingMut pre) bs.length)) with
    | panic => rw [hq] at h1; cases h1
    | ok t2 => rw [hq] at h1; simp only [Res.map, Res.ok.injEq, Prod.mk.injEq] at h1; rw [h1.2]
  have hlen : (bs.take (min (remainingMut pre) bs.length)).length ≤ bs.length := by
    rw [List.length_take]; omega
  exact innerOracle_putSlice e he pre t' _ h ho (noHardLimit_mono (by omega) hl) (by omega) hps

/-- `put(src: impl Buf)`: everything the oracles look at -/
theorem putBuf_full (e : Env) (he : e.ok) (t : MutT) (src : BufT) (h : wfM t) (ho : ordM t) (hs : wf src)
    (hf : fits t (remaining src)) (hl : noHardLimit t (remaining src + 64)) :
    ∃ t' src', putBuf e t src = .ok (t', src') ∧ written t' = written t ++ den src ∧
      roomOpt t' = (roomOpt t).map (· - (den src).length) ∧ MutJ.innerOracle t t' = none := by
  have hi : Inv t (remaining src) := ⟨h, hf, hl⟩
  have hrem : ¬ remainingMut t < remaining src := Nat.not_lt.mpr (hi.rem_ge (remaining_lt_W src hs))
  have hgen : ∀ t0 : MutT, t0 = t → (∀ k p w sp, t0 ≠ .grow k p w sp) →
      putBuf e t0 src = putBufLoop e (remaining src + 1) t0 src := by
    intro t0 ht0 hng
    subst ht0
    cases t0 with
    | grow k p w sp => exact absurd rfl (hng k p w sp)
    | _ => simp only [putBuf, hrem, ↓reduceIte]
  have hdef : (∀ k p w sp, t ≠ .grow k p w sp) → ∃ t' src', putBuf e t src = .ok (t', src') ∧
      written t' = written t ++ den src ∧
      roomOpt t' = (roomOpt t).map (· - (den src).length) ∧ MutJ.innerOracle t t' = none := by
    intro hng
    obtain ⟨t', src', h1, hwr⟩ := putBufLoop_wr e he (remaining src + 1) t src (by omega) hs hi
    exact ⟨t', src', by rw [hgen t rfl hng, h1], (hwr.written_eq he ho).1, hwr.room he,
      innerOracle_wr he hwr ho⟩
  cases t with
  | grow k p w sp =>
    obtain ⟨t', src', h1, h2, _, _⟩ := putBuf_ok e he _ src h ho hs hf hl
    have h1' := h1
    simp only [putBuf, hrem, ↓reduceIte] at h1'
    obtain ⟨w', sp', rfl⟩ := putBufGrowLoop_grow e _ k p w sp src t' src' h1'
    exact ⟨_, src', h1, h2, rfl, rfl⟩
  | fixed k w r => exact hdef (by intros; simp)
  | chain a b => exact hdef (by intros; simp)
  | limit i n => exact hdef (by intros; simp)
  | refMut i => exact hdef (by intros; simp)
  | box i => exact hdef (by intros; simp)

/-- `putbuf <source tree>` (`hs`: the source described in the trace is a well-formed buffer) -/
theorem sound_putbuf (e : Env) (he : e.ok) (pre : MutT) (srcw : List String) (s : BufT)
    (hp : BufJ.parseTreeAll srcw = some s) (hs : wf s)
    (h : wfM pre) (ho : ordM pre) (hl : noHardLimit pre (remaining s + 64)) :
    SoundAtM pre ("putbuf" :: srcw) (finRes ((putBuf e pre s).map (·.1))) (finPost ((putBuf e pre s).map (·.1))) := by
  have hrem := remaining_eq s hs
  by_cases hr : remainingMut pre < remaining s
  · rw [putBuf_panic e pre s hr]
    refine ⟨oracle_appended pre _ _ _ (den s) (by simp [specBytes, hp]) ?_ (fun _ => rfl), ?_⟩
    · intro hf
      have hW := remaining_lt_W s hs
      have := (⟨h, hrem ▸ hf, hl⟩ : Inv pre (remaining s)).rem_ge hW
      omega
    · intro _ post hpost; cases hpost
  · have hf : fits pre (remaining s) := fits_of_not_lt h hl hr
    obtain ⟨t', src', h1, h2, h3, h4⟩ := putBuf_full e he pre s h ho hs hf hl
    rw [h1]
    refine ⟨oracle_appended pre _ _ _ (den s) (by simp [specBytes, hp]) ?_ ?_, ?_⟩
    · intro _; exact ⟨t', rfl, h2, h3⟩
    · intro hlt; rw [← hrem] at hlt; exact absurd hlt hr
    · intro _ post hpost
      simp only [Res.map, finPost, Option.some.injEq] at hpost
      subst hpost; exact h4

/-- the `nbytes > 8` rule -/
theorem oracle_specnone (pre : MutT) (op : List String) (res : String)
    (hspec : specBytes op = some none) : MutJ.oracle pre op res none = none := by
  unfold MutJ.oracle
  simp only
  split
  · simp [specBytes] at hspec
  · simp [specBytes] at hspec
  · simp [specBytes] at hspec
  · simp [specBytes] at hspec
  · rw [hspec]; rfl

theorem findRowM_mem {name : String} {row : PutRow} (h : MutJ.findRow name = some row) : row ∈ putters :=
  List.mem_of_find?_eq_some h

/-- `put <method> <value> [nbytes]`, for every row of the regenerated putter table -/
theorem sound_put (e : Env) (he : e.ok) (pre : MutT) (name sv : String) (rest : List String)
    (row : PutRow) (val : Int) (hrow : MutJ.findRow name = some row) (hv : sv.toInt? = some val)
    (h : wfM pre) (ho : ordM pre) (hl : noHardLimit pre (16 + 64)) :
    SoundAtM pre ("put" :: name :: sv :: rest)
      (finRes (evalPut e row.body val ((rest.head?.bind (·.toNat?)).getD 0) pre))
      (finPost (evalPut e row.body val ((rest.head?.bind (·.toNat?)).getD 0) pre)) := by
  have hok : putRowOK row = true :=
    List.all_eq_true.mp Cert.C11.putters_ok row (findRowM_mem hrow)
  generalize hnb : (rest.head?.bind (·.toNat?)).getD 0 = nb
  by_cases hvar : (row.spec.kind = .varUint ∨ row.spec.kind = .varInt) ∧ 8 < nb
  · rw [put_too_wide e row hok val nb hvar.1 hvar.2 pre]
    refine ⟨oracle_specnone pre _ _ ?_, by intro _ post hp; cases hp⟩
    have : (row.spec.kind == .varUint || row.spec.kind == .varInt) = true := by
      rcases hvar.1 with h | h <;> simp [h]
    simp [specBytes, hrow, hv, hnb, this, hvar.2]
  · have hn : (row.spec.kind = .varUint ∨ row.spec.kind = .varInt) → nb ≤ 8 := by
      intro hk
      by_cases h8 : nb ≤ 8
      · exact h8
      · exact absurd ⟨hk, by omega⟩ hvar
    obtain ⟨hbb, h16⟩ := bodyBytes_eq_encode' row hok val nb hn
    have hlen := encode_length row.spec val nb
    have hev : evalPut e row.body val nb pre = putSlice e pre (encode row.spec val nb) := by
      simp only [evalPut, hbb]
    rw [hev]
    refine sound_putSlice_op e he pre _ _ h ho (noHardLimit_mono (by omega) hl)
      (by rw [hlen, W_eq]; omega) ?_
    have hnv : ((row.spec.kind == .varUint || row.spec.kind == .varInt) && decide (nb > 8)) = false := by
      rw [Bool.and_eq_false_iff]
      by_cases h8 : nb > 8
      · left
        have : ¬ (row.spec.kind = .varUint ∨ row.spec.kind = .varInt) := fun h => hvar ⟨h, h8⟩
        simp only [not_or] at this
        simp [this.1, this.2]
      · right; simp [h8]
    simp [specBytes, hrow, hv, hnb, hnv]

/-- the number of bytes an operation offers to the target (for `put <method>`: the widest method) -/
def opLen (op : List String) : Nat :=
  match op with
  | ["putslice", h] => ((parseHex h).getD []).length
  | ["write", h] => ((parseHex h).getD []).length
  | ["putbytes", _, c] => c.toNat?.getD 0
  | "putbuf" :: src => ((BufJ.parseTreeAll src).map remaining).getD 0
  | "put" :: _ => 16
  | _ => 0

/-- the source buffer of a `putbuf` is a well-formed `Buf` (what the environment guarantees) -/
def SrcOK (op : List String) : Prop :=
  ∀ src s, op = "putbuf" :: src → BufJ.parseTreeAll src = some s → wf s

/-- **Write side, all operations**: on the model's own answer neither the C11/C12 property oracle nor
(for the writing operations) the C12 inner-state oracle fires.  Hypotheses = those of the C11
theorems: allocator within its contract (`e.ok`), well-formed target in write order (`wfM`, `ordM`),
no growable leaf within `opLen op + 64` bytes of `isize::MAX` (`noHardLimit`), the write fits `usize`,
for `remmut` the side condition of `remainingMut_fixed`, for `putbuf` a well-formed source. -/
theorem write_sound (e : Env) (he : e.ok) (pre : MutT) (h : wfM pre) (ho : ordM pre) (op : List String)
    (hl : noHardLimit pre (opLen op + 64)) (hw : opLen op < W)
    (hrm : op = ["remmut"] → ∀ r, roomOpt pre = some r → r < isizeMax / 2 → noHardLimit pre r)
    (hsrc : SrcOK op) (mres : String) (mpost : Option MutT)
    (hm : MutJ.modelOp e pre op = some (mres, mpost)) : SoundAtM pre op mres mpost := by
  unfold MutJ.modelOp at hm
  simp only at hm
  split at hm
  · -- remmut
    cases hm; exact sound_remmut pre h (hrm rfl)
  · -- chunkmut
    have := sound_chunkmut e he pre h (noHardLimit_mono (by omega) hl)
    cases hc : chunkMut e pre with
    | mk n t' => rw [hc] at hm this; cases hm; exact this
  · -- putslice
    rename_i hx
    cases hp : parseHex hx with
    | none => rw [hp] at hm; cases hm
    | some bs =>
      rw [hp] at hm; simp only [Option.map_some, Option.some.injEq] at hm
      simp only [opLen, hp, Option.getD_some] at hl hw
      have := sound_putslice e he pre hx bs hp h ho hl hw
      cases hr : putSlice e pre bs <;> (rw [hr] at hm this; cases hm; exact this)
  · -- putbytes
    rename_i sv sc
    cases hv : sv.toNat? with
    | none => rw [hv] at hm; cases hm
    | some v =>
      cases hc : sc.toNat? with
      | none => rw [hv, hc] at hm; cases hm
      | some c =>
        rw [hv, hc] at hm; simp only [Option.some.injEq] at hm
        simp only [opLen, hc, Option.getD_some] at hl hw
        have := sound_putbytes e he pre sv sc v c hv hc h ho hl hw
        cases hr : putBytes e pre v c <;> (rw [hr] at hm this; cases hm; exact this)
  · -- putbuf
    rename_i srcw
    cases hp : BufJ.parseTreeAll srcw with
    | none => rw [hp] at hm; cases hm
    | some s =>
      rw [hp] at hm; simp only [Option.map_some, Option.some.injEq] at hm
      simp only [opLen, hp, Option.map_some, Option.getD_some] at hl
      have := sound_putbuf e he pre srcw s hp (hsrc srcw s rfl hp) h ho hl
      cases hr : (putBuf e pre s).map (·.1) <;> (rw [hr] at hm this; cases hm; exact this)
  · -- put
    rename_i name sv rest
    cases hrow : MutJ.findRow name with
    | none => rw [hrow] at hm; cases hm
    | some row =>
      cases hv : sv.toInt? with
      | none => rw [hrow, hv] at hm; cases hm
      | some val =>
        rw [hrow, hv] at hm; simp only [Option.some.injEq] at hm
        simp only [opLen] at hl
        have := sound_put e he pre name sv rest row val hrow hv h ho hl
        cases hr : evalPut e row.body val ((rest.head?.bind (·.toNat?)).getD 0) pre <;>
          (rw [hr] at hm this; cases hm; exact this)
  · -- write
    rename_i hx
    cases hp : parseHex hx with
    | none => rw [hp] at hm; cases hm
    | some bs =>
      rw [hp] at hm; simp only [Option.map_some, Option.some.injEq] at hm
      simp only [opLen, hp, Option.getD_some] at hl hw
      have := sound_write e he pre hx bs hp h ho hl hw
      cases hr : writerWrite e pre bs with
      | panic => rw [hr] at hm this; cases hm; exact this
      | ok p => obtain ⟨n, t'⟩ := p; rw [hr] at hm this; cases hm; exact this
  · -- flush
    cases hm; exact sound_flush pre
  · -- setlimit
    exact sound_setlimitM pre _ _ _
  · cases hm

/-- the same with one uniform size assumption: no growable leaf more than half full (2^62 bytes),
and the operation offers fewer than 2^62 - 64 bytes -/
theorem write_sound' (e : Env) (he : e.ok) (pre : MutT) (h : wfM pre) (ho : ordM pre) (op : List String)
    (hl : noHardLimit pre (isizeMax / 2)) (hlen : opLen op + 64 ≤ isizeMax / 2)
    (hsrc : SrcOK op) (mres : String) (mpost : Option MutT)
    (hm : MutJ.modelOp e pre op = some (mres, mpost)) : SoundAtM pre op mres mpost :=
  write_sound e he pre h ho op (noHardLimit_mono hlen hl)
    (by have := W_eq; have := isizeMax_eq; omega)
    (fun _ r _ hr => noHardLimit_mono (by omega) hl) hsrc mres mpost hm

theorem defaultEnv_ok : defaultEnv.ok := by
  refine ⟨fun len hlen => ⟨Nat.le_refl _, hlen⟩, fun len spare n hlen => ?_⟩
  simp only [defaultEnv]; omega

/-- … for the allocator model the judge itself runs (`judgeOp` calls `modelOp defaultEnv`) -/
theorem write_sound_default (pre : MutT) (h : wfM pre) (ho : ordM pre) (op : List String)
    (hl : noHardLimit pre (isizeMax / 2)) (hlen : opLen op + 64 ≤ isizeMax / 2)
    (hsrc : SrcOK op) (mres : String) (mpost : Option MutT)
    (hm : MutJ.modelOp defaultEnv pre op = some (mres, mpost)) : SoundAtM pre op mres mpost :=
  write_sound' defaultEnv defaultEnv_ok pre h ho op hl hlen hsrc mres mpost hm

/-! ### the remaining rules of `judgeOp` / `step` -/

/-- "a write that does not fit must panic" (`isWrite && mres == "panic" && res != "panic"`): it
compares the model's answer with the implementation's, so on the model's own answer it is vacuous. -/
theorem doesNotFit_rule_silent (isWrite : Bool) (mres : String) :
    (isWrite && mres == "panic" && mres != "panic") = false := by
  cases isWrite <;> simp

/-- Target descriptions of the `m` lines (grammar of `harness/src/mutstream.rs::parse`). -/
inductive Desc where
  | vec (pre : Bs) (cap : Nat)
  | bmut (pre : Bs) (cap : Nat)
  | slice (n : Nat)
  | uninit (n : Nat)
  | chain (a b : Desc)
  | limit (n : Nat) (i : Desc)
  | ref (i : Desc)
  | box (i : Desc)

def Desc.tokens : Desc → List String
  | .vec pre cap => ["vec", toHex pre, toString cap]
  | .bmut pre cap => ["bmut", toHex pre, toString cap]
  | .slice n => ["slice", toString n]
  | .uninit n => ["uninit", toString n]
  | .chain a b => "chain" :: (a.tokens ++ b.tokens)
  | .limit n i => "limit" :: toString n :: i.tokens
  | .ref i => "ref" :: i.tokens
  | .box i => "box" :: i.tokens

/-- the freshly built target a description denotes (spare capacity = what was asked for) -/
def Desc.fresh : Desc → MutT
  | .vec pre cap => .grow .vec pre [] (cap - pre.length)
  | .bmut pre cap => .grow .bytesMut pre [] (cap - pre.length)
  | .slice n => .fixed .slice [] n
  | .uninit n => .fixed .uninit [] n
  | .chain a b => .chain a.fresh b.fresh
  | .limit n i => .limit i.fresh n
  | .ref i => .refMut i.fresh
  | .box i => .box i.fresh

def Desc.bytesOK : Desc → Prop
  | .vec pre _ => ∀ x ∈ pre, x < 256
  | .bmut pre _ => ∀ x ∈ pre, x < 256
  | .chain a b => a.bytesOK ∧ b.bytesOK
  | .limit _ i => i.bytesOK
  | .ref i => i.bytesOK
  | .box i => i.bytesOK
  | _ => True

theorem nat_ne_limit (n : Nat) : toString n ≠ "limit" := by
  intro he
  have h := (tok_natRepr n)
  have hd : ∀ c ∈ (Nat.repr n).toList, c.isDigit = true := by
    intro c hc; rw [Nat.toList_repr] at hc
    exact Nat.isDigit_of_mem_toDigits (by omega) (by omega) hc
  have : 'l' ∈ (Nat.repr n).toList := by
    have he' : Nat.repr n = "limit" := he
    rw [he']; decide
  have := hd 'l' this
  revert this; decide

theorem hex_ne_limit (bs : Bs) (h : ∀ x ∈ bs, x < 256) : toHex bs ≠ "limit" := by
  intro he
  have := (hexTok_toHex bs h).2 'l' (by rw [he]; decide)
  revert this; decide

theorem descLimits_skip (w : String) (rest : List String) (h : w ≠ "limit") :
    descLimits (w :: rest) = descLimits rest := by
  rw [descLimits]
  intro n r he
  exact absurd he h

theorem descLimits_tokens (d : Desc) (hb : d.bytesOK) (rest : List String) :
    descLimits (d.tokens ++ rest) = limitsOf d.fresh ++ descLimits rest := by
  induction d generalizing rest with
  | vec pre cap =>
    simp only [Desc.tokens, List.cons_append, List.nil_append, Desc.fresh, limitsOf]
    rw [descLimits_skip _ _ (by decide), descLimits_skip _ _ (hex_ne_limit pre hb),
      descLimits_skip _ _ (nat_ne_limit cap)]
  | bmut pre cap =>
    simp only [Desc.tokens, List.cons_append, List.nil_append, Desc.fresh, limitsOf]
    rw [descLimits_skip _ _ (by decide), descLimits_skip _ _ (hex_ne_limit pre hb),
      descLimits_skip _ _ (nat_ne_limit cap)]
  | slice n =>
    simp only [Desc.tokens, List.cons_append, List.nil_append, Desc.fresh, limitsOf]
    rw [descLimits_skip _ _ (by decide), descLimits_skip _ _ (nat_ne_limit n)]
  | uninit n =>
    simp only [Desc.tokens, List.cons_append, List.nil_append, Desc.fresh, limitsOf]
    rw [descLimits_skip _ _ (by decide), descLimits_skip _ _ (nat_ne_limit n)]
  | chain a b iha ihb =>
    simp only [Desc.tokens, List.cons_append, List.append_assoc, Desc.fresh, limitsOf]
    rw [descLimits_skip _ _ (by decide), iha hb.1, ihb hb.2]
  | limit n i ih =>
    simp only [Desc.tokens, List.cons_append, Desc.fresh, limitsOf]
    rw [descLimits, ih hb]
    simp
  | ref i ih =>
    simp only [Desc.tokens, List.cons_append, Desc.fresh, limitsOf]
    rw [descLimits_skip _ _ (by decide), ih hb]
  | box i ih =>
    simp only [Desc.tokens, List.cons_append, Desc.fresh, limitsOf]
    rw [descLimits_skip _ _ (by decide), ih hb]

/-- the initial-limit rule of `step` (`descLimits (words desc) != limitsOf t`) is silent when the
first state is the fresh target the description denotes -/
theorem initialLimit_rule_silent (d : Desc) (hb : d.bytesOK) :
    (descLimits d.tokens != limitsOf d.fresh) = false := by
  have := descLimits_tokens d hb []
  simp only [List.append_nil, descLimits] at this
  simp [this]

/-! ### Why the hypotheses are needed (the oracle does fire on the model's own answer without them)

None of these is a false alarm on a correct implementation: they are states / inputs the
environment excludes, and exactly the side conditions of the C09 / C10 / C11 theorems. -/

-- `ordM` (write order): the chain whose second half was written first; the model appends the new
-- byte *before* the old one in `written`, the oracle expects it after.
example : (MutJ.oracle badChain ["putslice", "01"] "ok"
    (finPost (putSlice defaultEnv badChain [1]))).isSome = true := by decide
-- bytes are `u8` (`hb`): a "byte" 256 renders as a non-hex digit and does not parse back.
example : (BufJ.oracle (.flat .slice [256]) ["chunk"] [toHex (chunk (.flat .slice [256]))]
    (some (.flat .slice [256]))).isSome = true := by decide
-- `wf` (VecDeque::as_slices puts the front part first): with an empty front slice the model's
-- `chunks_vectored` reports one empty slice although a byte remains.
example : chunksVectored (.deque [] [1]) 1 = [[]] := by decide
example : (BufJ.oracle (.deque [] [1]) ["vec", toString 1] [toString 1, commaHex [[]], "untouched=1"]
    (some (.deque [] [1]))).isSome = true := by
  have hsp : (commaHex [[]]).splitOn "," = [toHex []] :=
    splitOn_intercalate_str "," ',' (by decide) [toHex []] (by simp) (by decide)
  have hnd : (commaHex [[]] == ".") = false := by decide
  simp [BufJ.oracle, hsp, hnd, parseHex_toHex, BufJ.isPrefix, den]

end Write

end BytesVerif.OracleSound
