/-
C17 over the general adversary (Model/AdvGen.lean) — a safe-but-lying `Buf` whose answers may change on EVERY call
(interior mutability: `chunk()` long on one call, short on the next, no `advance` in between; `remaining()` different
on two successive reads) cannot drive the crate's consumers into undefined behaviour.  For every answer function,
every argument and every fuel, no consumer evaluates to `.ub`; the length / bound theorems of Props/C17.lean hold
unchanged.  The last section shows that the generalisation is strict: the `flicker` adversary does something no
scripted adversary of Model/Adv.lean can, and a check-then-re-fetch consumer (which the crate does not contain) is
safe against every scripted adversary yet reaches `ub` on `flicker`.
-/
import BytesVerif.Model.AdvGen
import BytesVerif.Lemmas.AdvGen
import BytesVerif.Props.C17
namespace BytesVerif.AdvGen
open BytesVerif.Adv

/-! ### the primitives themselves -/

theorem remaining_no_ub (b : GAdv) : NoUB (remaining b) := by
  exact remaining_safe b

theorem chunk_no_ub (b : GAdv) : NoUB (chunk b) := by
  exact chunk_safe b

theorem advance_no_ub (b : GAdv) (cnt : Nat) : NoUB (advance b cnt) := by
  exact advance_safe b cnt

/-! ### the consumers of Model/Adv.lean's first part -/

theorem tryCopyLoop_no_ub (fuel : Nat) (b : GAdv) (need : Nat) (acc : Bs) : NoUB (tryCopyLoop fuel b need acc) := by
  exact tryCopyLoop_safe fuel b need acc

theorem tryCopyToSlice_no_ub (fuel : Nat) (b : GAdv) (n : Nat) : NoUB (tryCopyToSlice fuel b n) := by
  exact tryCopyToSlice_safe fuel b n

theorem copyToSlice_no_ub (fuel : Nat) (b : GAdv) (n : Nat) : NoUB (copyToSlice fuel b n) := by
  exact copyToSlice_safe fuel b n

/-- the typed getters' fast path: the unsafe array read never leaves the slice that the ONE `chunk()` call returned,
whatever `remaining()` claimed and whatever a later `chunk()` would have returned -/
theorem tryGetFixed_no_ub (fuel : Nat) (b : GAdv) (size : Nat) : NoUB (tryGetFixed fuel b size) := by
  exact tryGetFixed_safe fuel b size

theorem tryGetVar_no_ub (fuel : Nat) (b : GAdv) (nbytes : Nat) : NoUB (tryGetVar fuel b nbytes) := by
  exact tryGetVar_safe fuel b nbytes

theorem getU8_no_ub (b : GAdv) : NoUB (getU8 b) := by
  exact getU8_safe b

theorem putFixedLoop_no_ub (fuel : Nat) (b : GAdv) (room : Nat) (acc : Bs) : NoUB (putFixedLoop fuel b room acc) := by
  exact putFixedLoop_safe fuel b room acc

theorem putFixed_no_ub (fuel : Nat) (b : GAdv) (room : Nat) : NoUB (putFixed fuel b room) := by
  exact putFixed_safe fuel b room

/-- growing destinations (`BytesMut::put`, `Vec::put`): every unsafe copy fits the capacity reserved for the real
length of the very slice that is copied (no hypothesis on `len`, `cap` needed) -/
theorem putGrowLoop_no_ub (fuel : Nat) (b : GAdv) (len cap : Nat) : NoUB (putGrowLoop fuel b len cap) := by
  exact putGrowLoop_safe fuel b len cap

theorem vecPut_no_ub (fuel : Nat) (b : GAdv) (len cap : Nat) : NoUB (vecPut fuel b len cap) := by
  exact vecPut_safe fuel b len cap

theorem iterNext_no_ub (b : GAdv) : NoUB (iterNext b) := by
  exact iterNext_safe b

theorem readerRead_no_ub (fuel : Nat) (b : GAdv) (n : Nat) : NoUB (readerRead fuel b n) := by
  exact readerRead_safe fuel b n

theorem takeChunksVectored_no_ub (b : GAdv) (limit dstLen : Nat) : NoUB (takeChunksVectored b limit dstLen) := by
  exact takeChunksVectored_safe b limit dstLen

/-! ### round 8: `Take` / `Chain` / `Limit` wrapped around the adversary -/

theorem takeRemaining_no_ub (b : GAdv) (limit : Nat) : NoUB (takeRemaining b limit) := by
  exact takeRemaining_safe b limit

theorem takeChunk_no_ub (b : GAdv) (limit : Nat) : NoUB (takeChunk b limit) := by
  exact takeChunk_safe b limit

theorem takeAdvance_no_ub (b : GAdv) (limit cnt : Nat) : NoUB (takeAdvance b limit cnt) := by
  exact takeAdvance_safe b limit cnt

/-- `BytesMut::put(adv.take(limit))`: the unsafe copy of `extend_from_slice` always fits what `reserve` made room for -/
theorem putGrowTakeLoop_no_ub (fuel : Nat) (b : GAdv) (limit len cap : Nat) :
    NoUB (putGrowTakeLoop fuel b limit len cap) := by
  exact putGrowTakeLoop_safe fuel b limit len cap

theorem defaultCopyToBytes_no_ub (fuel : Nat) (b : GAdv) (len : Nat) : NoUB (defaultCopyToBytes fuel b len) := by
  exact defaultCopyToBytes_safe fuel b len

theorem takeCopyToBytes_no_ub (fuel : Nat) (b : GAdv) (lim len : Nat) : NoUB (takeCopyToBytes fuel b lim len) := by
  exact takeCopyToBytes_safe fuel b lim len

theorem chainCopyToBytes_no_ub (fuel : Nat) (b : GAdv) (bLen len : Nat) : NoUB (chainCopyToBytes fuel b bLen len) := by
  exact chainCopyToBytes_safe fuel b bLen len

theorem chainChunksVectored_no_ub (b : GAdv) (bLen : Nat) : NoUB (chainChunksVectored b bLen) := by
  exact chainChunksVectored_safe b bLen

theorem chainGetFixed_no_ub (fuel : Nat) (pre : Bs) (b : GAdv) (size : Nat) : NoUB (chainGetFixed fuel pre b size) := by
  exact chainGetFixed_safe fuel pre b size

theorem putLimitLoop_no_ub (fuel : Nat) (b : GAdv) (limit len cap : Nat) : NoUB (putLimitLoop fuel b limit len cap) := by
  exact putLimitLoop_safe fuel b limit len cap

theorem putLimit_no_ub (fuel : Nat) (b : GAdv) (limit len cap : Nat) : NoUB (putLimit fuel b limit len cap) := by
  exact putLimit_safe fuel b limit len cap

/-! ### bounds: what comes back is exactly as long as the destination; wrappers keep their limits -/

theorem tryCopyLoop_length (fuel : Nat) (b b' : GAdv) (need : Nat) (acc bs : Bs)
    (hr : tryCopyLoop fuel b need acc = .ok (bs, b')) : bs.length = acc.length + need := by
  exact tryCopyLoop_len fuel b b' need acc bs hr

theorem tryCopyToSlice_length (fuel : Nat) (b b' : GAdv) (n : Nat) (bs : Bs)
    (hr : tryCopyToSlice fuel b n = .ok (some bs, b')) : bs.length = n := by
  exact tryCopyToSlice_len fuel b b' n bs hr

theorem tryGetFixed_length (fuel : Nat) (b b' : GAdv) (size : Nat) (bs : Bs)
    (hr : tryGetFixed fuel b size = .ok (some bs, b')) : bs.length = size := by
  exact tryGetFixed_len fuel b b' size bs hr

/-- a fixed destination is never written past its end: the bytes written plus the room left is the room it had -/
theorem putFixedLoop_room (fuel : Nat) (b : GAdv) (room room' : Nat) (acc out : Bs)
    (hr : putFixedLoop fuel b room acc = .ok (out, room')) : out.length + room' = acc.length + room := by
  exact putFixedLoop_len fuel b room room' acc out hr

theorem putGrowLoop_len_le_cap (fuel : Nat) (b : GAdv) (len cap len' cap' : Nat) (h : len ≤ cap)
    (hr : putGrowLoop fuel b len cap = .ok (len', cap')) : len' ≤ cap' := by
  exact putGrowLoop_inv fuel b len cap len' cap' h hr

/-- `Take` bounds a flickering source too: at most `limit` bytes are appended; `len ≤ cap` is kept -/
theorem putGrowTakeLoop_bound (fuel : Nat) (b : GAdv) (limit len cap len' cap' : Nat) (h : len ≤ cap)
    (hr : putGrowTakeLoop fuel b limit len cap = .ok (len', cap')) : len' ≤ len + limit ∧ len ≤ len' ∧ len' ≤ cap' := by
  exact putGrowTakeLoop_inv fuel b limit len cap len' cap' h hr

/-- the `Bytes` returned by the default `copy_to_bytes` is never longer than requested -/
theorem defaultCopyToBytes_len_le (fuel : Nat) (b : GAdv) (len n : Nat)
    (hr : defaultCopyToBytes fuel b len = .ok n) : n ≤ len := by
  exact defaultCopyToBytes_le fuel b len n hr

theorem chainChunksVectored_count (b : GAdv) (bLen n : Nat) (hr : chainChunksVectored b bLen = .ok n) : n ≤ 2 := by
  exact chainChunksVectored_le b bLen n hr

theorem chainGetFixed_length (fuel : Nat) (pre : Bs) (b : GAdv) (size : Nat) (bs : Bs) (hp : pre.length ≤ size)
    (hr : chainGetFixed fuel pre b size = .ok bs) : bs.length = size := by
  exact chainGetFixed_len fuel pre b size bs hp hr

/-- `Limit` holds against a flickering source: bytes written + limit left = limit before, and `len ≤ cap` is kept -/
theorem putLimitLoop_bound (fuel : Nat) (b : GAdv) (limit len cap len' cap' limit' : Nat) (h : len ≤ cap)
    (hr : putLimitLoop fuel b limit len cap = .ok (len', cap', limit')) :
    len' + limit' = len + limit ∧ len' ≤ cap' := by
  exact putLimitLoop_inv fuel b limit len cap len' cap' limit' h hr

/-! ### the generalisation is strict -/

/-- `chunk()` answers 80 bytes on the first call after an advance and 0 bytes on every later one -/
def flicker : GAdv :=
  { answers := fun _ c => if c = 0 then ⟨1, 80, 0⟩ else ⟨1, 0, 0⟩, backing := List.replicate 512 0 }

/-- two successive `chunk()` calls on `flicker`, no `advance` in between (`k` unchanged), return slices of different
lengths: 80 bytes, then none -/
theorem flicker_chunk_changes :
    ∃ s1 b1 s2 b2, chunk flicker = .ok (s1, b1) ∧ chunk b1 = .ok (s2, b2) ∧
      b1.k = flicker.k ∧ b2.k = flicker.k ∧ s1.length = 80 ∧ s2.length = 0 := by
  refine ⟨_, _, _, _, rfl, rfl, rfl, rfl, ?_, ?_⟩ <;>
    simp [flicker, GAdv.cur, -List.reduceReplicate]

/-- an adversary whose answers ignore the call index: exactly what Model/Adv.lean's script can express -/
def Scripted (b : GAdv) : Prop := ∀ k c c', b.answers k c = b.answers k c'

theorem ofScript_scripted (script : List Lie) (backing : Bs) : Scripted (ofScript script backing) := by
  intro k c c'; rfl

/-- a scripted adversary cannot flicker: two successive `chunk()` calls return the same slice -/
theorem scripted_chunk_stable {b b1 b2 : GAdv} {s1 s2 : Bs} (hb : Scripted b)
    (h1 : chunk b = .ok (s1, b1)) (h2 : chunk b1 = .ok (s2, b2)) : s1 = s2 := by
  unfold chunk at h1
  split at h1
  · cases h1
  · simp only [Res.ok.injEq, Prod.mk.injEq] at h1
    obtain ⟨rfl, rfl⟩ := h1
    unfold chunk at h2
    split at h2
    · cases h2
    · simp only [Res.ok.injEq, Prod.mk.injEq] at h2
      obtain ⟨rfl, _⟩ := h2
      simp only [GAdv.cur, hb b.k (b.c + 1) b.c]

theorem flicker_not_scripted : ¬ Scripted flicker := by
  intro h
  exact absurd (congrArg Lie.chunk (h 0 0 1)) (by decide)

/-- NOT in the crate: the length check is made on one `chunk()` and the unsafe read goes through a second one -/
def getFixedRefetch (b : GAdv) (size : Nat) : Res Bs := do
  let c1 ← chunk b
  if size ≤ c1.1.length then do
    let c2 ← chunk c1.2
    unsafeRead c2.1 size
  else .panic

/-- against every scripted adversary (all that Model/Adv.lean can express) the re-fetching read is fine … -/
theorem getFixedRefetch_scripted_no_ub (b : GAdv) (hb : Scripted b) (size : Nat) : NoUB (getFixedRefetch b size) := by
  unfold getFixedRefetch
  refine Safe.bind (chunk_safe b) fun c1 h1 => ?_
  apply Safe.ite (fun hc => ?_) fun _ => safe_panic
  refine Safe.bind (chunk_safe _) fun c2 h2 => ?_
  have hs : c1.1 = c2.1 := scripted_chunk_stable hb h1 h2
  exact unsafeRead_safe_of_le (hs ▸ hc)

/-- … and on `flicker` it reads past the end of the slice: `ub` is reachable in the general model exactly through
the power the generalisation adds -/
theorem getFixedRefetch_flicker_ub : ∃ w, getFixedRefetch flicker 8 = .ub w := by
  refine ⟨"read past the end of the slice returned by chunk()", ?_⟩
  simp [getFixedRefetch, chunk, unsafeRead, flicker, GAdv.cur, -List.reduceReplicate]

/-- the crate's own fast path on the same adversary does not, for any size and fuel: one `chunk()`, checked and read -/
theorem tryGetFixed_flicker_no_ub (fuel size : Nat) : NoUB (tryGetFixed fuel flicker size) := by
  exact tryGetFixed_no_ub fuel flicker size

end BytesVerif.AdvGen
