/-
C07 — sharing operations are zero-copy: the resulting handles start at the source address plus
their logical offset (same region, offset shifted), no byte buffer is allocated and no byte of any
region moves.  One theorem per operation family; `addrOf` is (region, offset).
-/
import BytesVerif.Lemmas.Core.Sound
import BytesVerif.Lemmas.Core.PropC07
namespace BytesVerif.Core

def addrOf : Handle → Option Nat × Nat
  | .bytes _ reg off _ => (reg, off)
  | .mut _ reg off _ _ _ => (reg, off)
  | .vec reg _ _ => (reg, 0)

def lenOf : Handle → Nat
  | .bytes _ _ _ len => len
  | .mut _ _ _ len _ _ => len
  | .vec _ len _ => len

def shift (a : Option Nat × Nat) (k : Nat) : Option Nat × Nat := (a.1, a.2 + k)

/-- no byte buffer allocated and no region's contents changed -/
def NoCopy (s s' : St) : Prop :=
  (∀ ev ∈ s'.events.take (s'.events.length - s.events.length), ∀ r z, ev ≠ .alloc r z) ∧
  (∀ (r : Nat) (rg : Region), s.regions[r]? = some rg → ∃ rg' : Region, s'.regions[r]? = some rg' ∧ rg'.data = rg.data ∧ rg'.size = rg.size)

/-- clone of a `Bytes`: the clone is at the same address, the original stays where it is -/
theorem zero_copy_clone (cfg : Cfg) (e : Env) (i : Nat) (s s' : St) (h : WFx s) (j : Nat) (x : Handle)
    (hx : s.hs[i]? = some (some x)) (hb : kindOf x = .bytes) (hs : step cfg e (.clone i) s = .ok (.handle j) s') :
    NoCopy s s' ∧ ∃ y x', s'.hs[j]? = some (some y) ∧ s'.hs[i]? = some (some x') ∧
      (lenOf y ≠ 0 → addrOf y = addrOf x) ∧ addrOf x' = addrOf x := by
  exact PropC07.zero_copy_clone cfg e i s s' h j x hx hb hs

/-- `slice(lo..hi)`: a non-empty result starts at the source address + lo -/
theorem zero_copy_slice (cfg : Cfg) (e : Env) (i lo hi : Nat) (s s' : St) (h : WFx s) (j : Nat) (x : Handle)
    (hx : s.hs[i]? = some (some x)) (hs : step cfg e (.slice i lo hi) s = .ok (.handle j) s') :
    NoCopy s s' ∧ ∃ y, s'.hs[j]? = some (some y) ∧ (lenOf y ≠ 0 → addrOf y = shift (addrOf x) lo) := by
  exact PropC07.zero_copy_slice cfg e i lo hi s s' h j x hx hs

/-- `split_off(k)`: self keeps its address, the returned part starts at + k — for `Bytes` also when
one of them is empty; for `BytesMut` whenever the returned part has capacity -/
theorem zero_copy_splitOff (cfg : Cfg) (e : Env) (i k : Nat) (s s' : St) (h : WFx s) (j : Nat) (x : Handle)
    (hx : s.hs[i]? = some (some x)) (hs : step cfg e (.splitOff i k) s = .ok (.handle j) s') :
    NoCopy s s' ∧ ∃ y x', s'.hs[j]? = some (some y) ∧ s'.hs[i]? = some (some x') ∧
      addrOf x' = addrOf x ∧ addrOf y = shift (addrOf x) k := by
  exact PropC07.zero_copy_splitOff cfg e i k s s' h j x hx hs

/-- `split_to(k)`: the returned part starts at the old address, self moves by k -/
theorem zero_copy_splitTo (cfg : Cfg) (e : Env) (i k : Nat) (s s' : St) (h : WFx s) (j : Nat) (x : Handle)
    (hx : s.hs[i]? = some (some x)) (hs : step cfg e (.splitTo i k) s = .ok (.handle j) s') :
    NoCopy s s' ∧ ∃ y x', s'.hs[j]? = some (some y) ∧ s'.hs[i]? = some (some x') ∧
      addrOf y = addrOf x ∧ addrOf x' = shift (addrOf x) k := by
  exact PropC07.zero_copy_splitTo cfg e i k s s' h j x hx hs

/-- `truncate`, `clear`, `advance`, `freeze`, `Bytes::from(Vec)`: in place -/
theorem zero_copy_inplace (cfg : Cfg) (e : Env) (op : Op) (i : Nat) (s s' : St) (h : WFx s) (v : Val) (x : Handle)
    (hop : op = .truncate i (lenOf x - 1) ∨ (∃ n, op = .truncate i n) ∨ op = .clear i ∨ op = .freeze i ∨ op = .fromVec i)
    (hx : s.hs[i]? = some (some x)) (hs : step cfg e op s = .ok v s') :
    NoCopy s s' ∧ ∃ x', s'.hs[i]? = some (some x') ∧ (lenOf x' ≠ 0 → addrOf x' = addrOf x) := by
  exact PropC07.zero_copy_inplace cfg e op i s s' h v x hop hx hs

theorem zero_copy_advance (cfg : Cfg) (e : Env) (i n : Nat) (s s' : St) (h : WFx s) (v : Val) (x : Handle)
    (hx : s.hs[i]? = some (some x)) (hs : step cfg e (.advance i n) s = .ok v s') :
    NoCopy s s' ∧ ∃ x', s'.hs[i]? = some (some x') ∧ (lenOf x' ≠ 0 → addrOf x' = shift (addrOf x) n) := by
  exact PropC07.zero_copy_advance cfg e i n s s' h v x hx hs

/-- `unsplit` of adjacent halves of one shared buffer: merged in place -/
theorem zero_copy_unsplit (cfg : Cfg) (e : Env) (i j : Nat) (s s' : St) (h : WFx s) (v : Val)
    (c r off len cap orig ooff olen ocap oorig : Nat)
    (hi : s.hs[i]? = some (some (.mut (some c) (some r) off len cap orig)))
    (hj : s.hs[j]? = some (some (.mut (some c) (some r) ooff olen ocap oorig)))
    (hne : i ≠ j) (hlen : len ≠ 0) (hocap : ocap ≠ 0) (hadj : ooff = off + len)
    (hs : step cfg e (.unsplit i j) s = .ok v s') :
    NoCopy s s' ∧ ∃ cap', s'.hs[i]? = some (some (.mut (some c) (some r) off (len + olen) cap' orig)) := by
  exact PropC07.zero_copy_unsplit cfg e i j s s' h v c r off len cap orig ooff olen ocap oorig hi hj hne hlen hocap hadj hs

/-- the `Bytes` → `BytesMut` conversion of a uniquely held buffer returns the same memory -/
theorem zero_copy_tryIntoMut (cfg : Cfg) (e : Env) (i : Nat) (s s' : St) (h : WFx s) (x : Handle)
    (hx : s.hs[i]? = some (some x)) (hs : step cfg e (.tryIntoMut i) s = .ok (.handle i) s') :
    NoCopy s s' ∧ ∃ x', s'.hs[i]? = some (some x') ∧ kindOf x' = .mut ∧ (lenOf x' ≠ 0 → addrOf x' = addrOf x) := by
  exact PropC07.zero_copy_tryIntoMut cfg e i s s' h x hx hs

end BytesVerif.Core
