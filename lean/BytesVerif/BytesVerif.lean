import BytesVerif.Props.C14
