import BytesVerif.Judge.C14
import BytesVerif.Judge.C15
import BytesVerif.Judge.Buf
import BytesVerif.Judge.Mut
import BytesVerif.Judge.Seq
import BytesVerif.Judge.Recycle
import BytesVerif.Judge.Adv

def main (args : List String) : IO UInt32 := do
  match args with
  | ["cert-c14"] => BytesVerif.Judge.C14.certSearch
  | ["cmp"] => BytesVerif.Judge.C14.run
  | ["cert-c15"] => BytesVerif.Judge.C15.certSearch
  | ["fmt"] => BytesVerif.Judge.C15.run
  | ["buf"] => BytesVerif.Judge.BufJ.run false
  | ["buf", "debug"] => BytesVerif.Judge.BufJ.run false
  | ["buf", "release"] => BytesVerif.Judge.BufJ.run true
  | ["recycle"] => BytesVerif.Judge.RecJ.run
  | ["adv"] => BytesVerif.Judge.AdvJ.run
  | ["seq"] => BytesVerif.Judge.SeqJ.run
  | ["mut"] => BytesVerif.Judge.MutJ.run
  | ["cert-c11"] => BytesVerif.Judge.MutJ.certSearch
  | ["cert-c10"] => BytesVerif.Judge.BufJ.certSearch
  | _ => do
    IO.eprintln s!"judge: unknown mode {args}"
    return 2
