import BytesVerif.Judge.C14

def main (args : List String) : IO UInt32 := do
  match args with
  | ["cert-c14"] => BytesVerif.Judge.C14.certSearch
  | ["cmp"] => BytesVerif.Judge.C14.run
  | _ => do
    IO.eprintln s!"judge: unknown mode {args}"
    return 2
