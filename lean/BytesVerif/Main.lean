import BytesVerif.Judge.C14
import BytesVerif.Judge.C15

def main (args : List String) : IO UInt32 := do
  match args with
  | ["cert-c14"] => BytesVerif.Judge.C14.certSearch
  | ["cmp"] => BytesVerif.Judge.C14.run
  | ["cert-c15"] => BytesVerif.Judge.C15.certSearch
  | ["fmt"] => BytesVerif.Judge.C15.run
  | _ => do
    IO.eprintln s!"judge: unknown mode {args}"
    return 2
